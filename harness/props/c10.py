"""C10 — timing engine: positions <-> milliseconds.

Correspondence: TimingMap.from_bpm_changes_snap(reseat=False) / .offsets / .snaps / .beats / Snapper.snap
against Model/Timing.lean; specification: Spec/Timing.lean (`timeAt`, `IsNearest`) evaluated by the driver.
Two arithmetic modes: `float` (the code as shipped, compared within the §3 tolerance) and `exact`
(RAConst.MIN_TO_MSEC := Fraction(60000), Fraction tempos: same branches, exact equality required).
"""
import math
from fractions import Fraction as Fr

from lib.rat import R, F, close, dev

ID = "C10"
QUICK_N = 1500
THOROUGH_N = 60000
QUICK_BUDGET_S = 80
THOROUGH_BUDGET_S = 900
RULE = ("tempo lists of 1-12 changes (bpm over the whole positive range: 0.01-1.2 incl. 0.5/0.25/0.75, ordinary 20-600, "
        "1e4-1e6, from exactly-representable sets or arbitrary doubles, metronomes 1-8, "
        "pure time-signature changes that repeat the bpm, initial offset of both signs), handed over through every entry "
        "point (from_bpm_changes_snap, from_bpm_changes_offset, TimingMap(...), BpmList.to_timing_map) in original / "
        "reversed / shuffled list order; 0-60 queries in random order with duplicates; a third of the offsets cases are a "
        "SESSION on one TimingMap object (query, one change's bpm multiplied in place while every change keeps its "
        "millisecond time, query again - judged against the map as it is then); claims offsets/roundtrip/snap/"
        "beats, float and exact arithmetic modes; snap inputs include exact midpoints of neighbouring grid doubles; "
        "non-trivial = at least 2 tempo changes and a query beyond the first change, or a snap input off the grid")
ASSUMPTIONS = [
    "exact mode swaps RAConst.MIN_TO_MSEC for Fraction(60000) at run time (duck typing through the same code paths)",
    "Python's bisect.bisect_left and numpy argsort are modelled (binary search; any sorting permutation)",
    "for the from_bpm_changes_offset / TimingMap(...) / BpmList entry points the harness computes the change times "
    "(exact rationals, rounded to doubles in float mode) and feeds the model the exact values handed to the code",
    "float-mode snap cases are also compared, for equality, with the model run on the exact values of the doubles "
    "n/d (Sterbenz: the code's two subtractions are exact there), which pins the tie rule",
]

E_BPMS = [50, 60, 75, 100, 120, 125, 128, 150, 160, 200, 240, 250, 300, 375, 37.5, 62.5, 93.75, 187.5, 480, 600]
# the whole positive range ("any positive bpm"): very slow and very fast tempos whose beat length is still a dyadic
# number of milliseconds, next to arbitrary ones
E_SLOW = [0.5, 0.25, 0.75, 0.125, 0.375, 0.9375, 1, 1.5, 3, 7.5]
E_FAST = [12000, 15000, 30000, 60000, 120000, 240000, 960000, 7500, 46875]


def gen_bpm(rng, wide):
    """one tempo; `wide` cases draw from the whole positive range, the others from ordinary song tempos"""
    r = rng.random()
    if wide and r < 0.30:
        if rng.random() < 0.6:
            return Fr(rng.choice(E_SLOW))
        return Fr(round(rng.uniform(0.01, 1.2), rng.choice([2, 3, 6])) or 0.01)
    if wide and r < 0.55:
        if rng.random() < 0.6:
            return Fr(rng.choice(E_FAST))
        return Fr(round(10 ** rng.uniform(4, 6), rng.choice([0, 1, 3])))
    if rng.random() < 0.6:
        return Fr(rng.choice(E_BPMS))
    bpm = Fr(round(rng.uniform(20, 600), rng.choice([0, 1, 3, 6])))
    return bpm if bpm > 0 else Fr(120)
DENS = [1, 2, 3, 4, 6, 8, 12, 16, 24, 32, 48, 96]


def _imports():
    from reamber.base.RAConst import RAConst
    from reamber.algorithms.timing.TimingMap import TimingMap
    from reamber.algorithms.timing.utils.BpmChangeSnap import BpmChangeSnap
    from reamber.algorithms.timing.utils.snap import Snap
    from reamber.algorithms.timing.utils.Snapper import Snapper
    return RAConst, TimingMap, BpmChangeSnap, Snap, Snapper


class exact_mode:
    def __init__(self, on):
        self.on = on

    def __enter__(self):
        RAConst = _imports()[0]
        self.old = RAConst.MIN_TO_MSEC
        if self.on:
            RAConst.MIN_TO_MSEC = Fr(60000)

    def __exit__(self, *a):
        _imports()[0].MIN_TO_MSEC = self.old


# ------------------------------------------------------------------------------------------ generators

def gen_changes(rng, compatible=True, max_n=12, const_met=False):
    n = rng.choice([1, 1, 2, 2, 3, 3, 4, 5, 6, 8, 12][: max(1, max_n)])
    d = rng.choice(DENS)
    met = rng.randint(1, 8)
    out = []
    pos_m, pos_b = 0, Fr(0)
    wide = rng.random() < 0.4
    for i in range(n):
        bpm = gen_bpm(rng, wide)
        if i > 0 and rng.random() < 0.3:
            bpm = F(out[-1]["bpm"])      # a point that repeats the bpm (pure time-signature change / no-op point)
        if i > 0:
            # advance
            adv_m = rng.choice([0, 0, 1, 1, 2, 5])
            if (not const_met) and rng.random() < 0.35:
                # change the metronome: only on a measure line
                pos_m += max(1, adv_m)
                pos_b = Fr(0)
                met = rng.randint(1, 8)
            else:
                if compatible:
                    nb = Fr(rng.randrange(0, met * d), d)
                else:
                    nb = Fr(rng.randrange(0, met * 112), rng.choice([7 * 16, 5 * 64, 97, 101, 1000]))
                    nb = nb % met
                if adv_m == 0 and nb <= pos_b:
                    adv_m = 1
                pos_m += adv_m
                pos_b = nb
        out.append(dict(bpm=R(bpm), met=met, measure=pos_m, beat=R(pos_b)))
    return out


def gen_queries(rng, cs, maxq=60):
    k = rng.choice([0, 1, 2, 3, 5, 8, 13, 30, maxq])
    last = cs[-1]["measure"]
    qs = []
    for _ in range(k):
        r = rng.random()
        if r < 0.15 and qs:
            qs.append(rng.choice(qs))
            continue
        if r < 0.35:
            c = rng.choice(cs)          # exactly on / right after a change
            m, b = c["measure"], F(c["beat"])
            if rng.random() < 0.5:
                b = b + Fr(rng.randrange(0, 4), rng.choice(DENS))
        else:
            m = rng.randint(0, last + 3)
            den = rng.choice(DENS + [5, 7, 9, 64, 192, 1000])
            b = Fr(rng.randrange(0, 8 * den), den)
        # metronome carried by the query: none (no normalisation), the active one, or any other (Snap(...) then
        # normalises with a metronome that is not the one in force - still a legal position)
        met = rng.choice([None, None, "active", "active", rng.randint(1, 8)])
        qs.append(dict(measure=m, beat=R(b), met=met))
    return qs


ENTRIES = ["snap", "snap", "offset", "offset", "raw", "bpmlist", "bpmlist"]


def gen_entry(rng, cs, mode):
    """how the tempo list reaches the code: constructor and list order (key `k` per change = rank in the handed list)"""
    entry = rng.choice(ENTRIES)
    if entry == "bpmlist":
        mode = "float"           # BpmList columns are float64
    n = len(cs)
    how = rng.choice(["orig", "rev", "shuf", "shuf"])
    ks = list(range(n))
    if how == "rev":
        ks.reverse()
    elif how == "shuf":
        rng.shuffle(ks)
    for c, k in zip(cs, ks):
        c["k"] = k
    return entry, mode


def gen(rng, tier, i):
    r = rng.random()
    mode = "exact" if rng.random() < 0.5 else "float"
    if r < 0.40:
        compatible = rng.random() < 0.85
        cs = gen_changes(rng, compatible)
        t0 = Fr(rng.choice([0, 0, -1000, 1234, -37.5, 250000.125, rng.uniform(-5000, 5000)]))
        entry, mode = gen_entry(rng, cs, mode)
        case = dict(claim="offsets", mode=mode, entry=entry, t0=R(t0), cs=cs, qs=gen_queries(rng, cs))
        if rng.random() < 0.35:
            # a session on one TimingMap object: constant metronome, list handed in time order, >= 2 changes
            cs2 = gen_changes(rng, True, const_met=True)
            if len(cs2) >= 2:
                case = dict(claim="offsets", mode=mode, entry=rng.choice(["offset", "raw"]), t0=R(t0), cs=cs2,
                            qs=gen_queries(rng, cs2), sess=dict(i=rng.randrange(0, len(cs2) - 1), f=rng.choice([2, 2, 4])))
        return case
    if r < 0.65:
        compatible = rng.random() < 0.85
        cs = gen_changes(rng, compatible)
        t0 = Fr(rng.choice([0, -1000, 1234, -37.5, rng.uniform(-5000, 5000)]))
        ts = gen_times(rng, cs, t0)
        entry, mode = gen_entry(rng, cs, mode)
        return dict(claim="roundtrip", mode=mode, entry=entry, t0=R(t0), cs=cs, ts=ts)
    if r < 0.85:
        return dict(claim="snap", mode=mode, x=R(gen_snap_value(rng)))
    cs = gen_changes(rng, rng.random() < 0.85, const_met=True)
    t0 = Fr(rng.choice([0, -1000, 1234, rng.uniform(-5000, 5000)]))
    entry, mode = gen_entry(rng, cs, mode)
    return dict(claim="beats", mode=mode, entry=entry, t0=R(t0), cs=cs, ts=gen_times(rng, cs, t0))


_GRID = None


def py_grid():
    """Farey(96) + [1], computed here (not taken from the Snapper): exact values G and the doubles n/d as exact
    rationals FG (same index)."""
    global _GRID
    if _GRID is None:
        G = sorted({Fr(n, d) for d in range(1, 97) for n in range(0, d)}) + [Fr(1)]
        FG = [Fr(g.numerator / g.denominator) for g in G]
        assert all(a < b for a, b in zip(FG[:-1], FG[1:]))
        _GRID = (G, FG, {v: i for i, v in enumerate(FG)}, [R(v) for v in FG])
    return _GRID


def gen_snap_value(rng):
    r = rng.random()
    if r < 0.2:
        # exact midpoint of two neighbouring grid doubles (a true tie for the code when it is a double itself),
        # or one ulp-ish away from it
        G, FG, _, _ = py_grid()
        i = rng.randrange(len(FG) - 1)
        x = (FG[i] + FG[i + 1]) / 2
        x = Fr(float(x))
        if rng.random() < 0.3:
            x = Fr(math.nextafter(float(x), rng.choice([0.0, 1.0])))
        return x + rng.choice([0, 0, 0, 1, 2])
    r = rng.random()
    if r < 0.3:
        d = rng.randint(1, 96)
        return Fr(rng.randrange(0, 4 * d), d)
    if r < 0.5:                       # near a midpoint between neighbours of the grid
        d1, d2 = rng.randint(1, 96), rng.randint(1, 96)
        a, b = Fr(rng.randrange(0, d1 + 1), d1), Fr(rng.randrange(0, d2 + 1), d2)
        return (a + b) / 2 + rng.choice([0, 0, Fr(1, 10 ** 6), -Fr(1, 10 ** 6)]) + rng.randint(0, 3)
    if r < 0.7:
        return Fr(rng.uniform(0, 8))
    if r < 0.8:
        return Fr(rng.randrange(0, 8000), 1000)
    return Fr(rng.randrange(0, 10 ** 6), rng.randrange(1, 10 ** 4))


def change_times(cs, t0):
    """exact ms position of each change (reference, for generating interesting queries only)"""
    T = [Fr(t0)]
    for a, b in zip(cs[:-1], cs[1:]):
        dist = (b["measure"] - a["measure"]) * a["met"] + (F(b["beat"]) - F(a["beat"]))
        T.append(T[-1] + dist * Fr(60000) / F(a["bpm"]))
    return T


def gen_times(rng, cs, t0, maxq=40):
    T = change_times(cs, t0)
    k = rng.choice([1, 2, 3, 5, 8, 13, maxq])
    ts = []
    for _ in range(k):
        r = rng.random()
        i = rng.randrange(len(cs))
        bl = Fr(60000) / F(cs[i]["bpm"])
        if r < 0.1 and ts:
            ts.append(rng.choice(ts))
        elif r < 0.55:
            d = rng.choice(DENS + [5, 7, 9, 64])
            t = T[i] + bl * Fr(rng.randrange(0, 6 * cs[i]["met"] * d), d)
            ts.append(R(t))
        elif r < 0.65:
            ts.append(R(T[i]))
        else:
            t = T[i] + Fr(round(rng.uniform(0, 8000), rng.choice([0, 1, 3])))
            ts.append(R(t))
    return ts


def corpus():
    c = []
    # D22 witness shape: changes at beats 1/16 and 4 + 1/7
    c.append(dict(claim="offsets", mode="exact", t0=R(0),
                  cs=[dict(bpm=R(120), met=4, measure=0, beat=R(0)), dict(bpm=R(60), met=4, measure=0, beat=R(Fr(1, 16))),
                      dict(bpm=R(240), met=4, measure=1, beat=R(Fr(1, 7)))],
                  qs=[dict(measure=3, beat=R(0), met=None)], _expect="D22"))
    c.append(dict(claim="offsets", mode="float", t0=R(-1000),
                  cs=[dict(bpm=R(120), met=4, measure=0, beat=R(0)), dict(bpm=R(90), met=3, measure=2, beat=R(0))],
                  qs=[dict(measure=2, beat=R(0), met=None), dict(measure=0, beat=R(Fr(7, 2)), met=None),
                      dict(measure=5, beat=R(Fr(2, 3)), met="active"), dict(measure=2, beat=R(0), met=None)]))
    c.append(dict(claim="snap", mode="float", x=R(Fr(1, 3))))
    c.append(dict(claim="snap", mode="exact", x=R(Fr(191, 192))))
    c.append(dict(claim="snap", mode="exact", x=R(Fr(1, 192))))
    c.append(dict(claim="roundtrip", mode="exact", t0=R(0), cs=[dict(bpm=R(120), met=4, measure=0, beat=R(0))],
                  ts=[R(0), R(250), R(Fr(1000, 3)), R(123.456)]))
    c.append(dict(claim="roundtrip", mode="float", t0=R(100), cs=[dict(bpm=R(120), met=4, measure=0, beat=R(0))],
                  ts=[R(50)]))   # before the first change: IndexError class
    # pure time-signature change (same bpm, 4/4 -> 3/4) followed by a tempo change, through every entry point,
    # rows handed over in reversed order
    ts_cs = [dict(bpm=R(120), met=4, measure=0, beat=R(0), k=2), dict(bpm=R(120), met=3, measure=1, beat=R(0), k=1),
             dict(bpm=R(200), met=3, measure=3, beat=R(0), k=0)]
    for entry in ("snap", "offset", "raw", "bpmlist"):
        c.append(dict(claim="offsets", mode="float", entry=entry, t0=R(0), cs=[dict(x) for x in ts_cs],
                      qs=[dict(measure=2, beat=R(0), met="active"), dict(measure=0, beat=R(1), met=None),
                          dict(measure=4, beat=R(Fr(1, 2)), met="active"), dict(measure=1, beat=R(0), met=None)]))
        c.append(dict(claim="roundtrip", mode="float", entry=entry, t0=R(0), cs=[dict(x) for x in ts_cs],
                      ts=[R(3500), R(0), R(2000), R(5000), R(5150), R(1234)]))
    c.append(dict(claim="beats", mode="exact", entry="offset", t0=R(-250),
                  cs=[dict(bpm=R(120), met=4, measure=0, beat=R(0), k=1), dict(bpm=R(60), met=4, measure=1, beat=R(2), k=0)],
                  ts=[R(4000), R(-250), R(2750), R(1000)]))
    # "any positive bpm": a near-pause at 0.5 bpm between ordinary tempos, and a 960000 bpm burst (seeded change C10-C:
    # a max(bpm, 1) guard in beat_length)
    slow_cs = [dict(bpm=R(120), met=4, measure=0, beat=R(0), k=0), dict(bpm=R(Fr(1, 2)), met=4, measure=1, beat=R(0), k=1),
               dict(bpm=R(960000), met=3, measure=2, beat=R(0), k=2), dict(bpm=R(Fr(3, 4)), met=3, measure=40, beat=R(Fr(3, 2)), k=3)]
    for entry, mode in (("snap", "exact"), ("offset", "float"), ("bpmlist", "float")):
        c.append(dict(claim="offsets", mode=mode, entry=entry, t0=R(-500), cs=[dict(x) for x in slow_cs],
                      qs=[dict(measure=1, beat=R(2), met="active"), dict(measure=41, beat=R(0), met=None),
                          dict(measure=2, beat=R(0), met=None), dict(measure=20, beat=R(Fr(1, 3)), met="active")]))
        c.append(dict(claim="roundtrip", mode=mode, entry=entry, t0=R(-500), cs=[dict(x) for x in slow_cs],
                      ts=[R(1500), R(1500 + 120000), R(1500 + 480000), R(1500 + 480000 + Fr(1, 16)), R(700000)]))
    c.append(dict(claim="beats", mode="exact", entry="snap", t0=R(0),
                  cs=[dict(bpm=R(60), met=4, measure=0, beat=R(0), k=0), dict(bpm=R(Fr(1, 4)), met=4, measure=1, beat=R(0), k=1),
                      dict(bpm=R(240000), met=4, measure=2, beat=R(0), k=2)],
                  ts=[R(0), R(4000), R(4000 + 240000), R(4000 + 960000), R(4000 + 960000 + Fr(1, 4))]))
    # exact midpoint of the doubles 1/2 and 49/97-neighbour: ties go right
    G, FG, _, _ = py_grid()
    i = G.index(Fr(1, 2))
    c.append(dict(claim="snap", mode="float", x=R(Fr(float((FG[i - 1] + FG[i]) / 2)))))
    c.append(dict(claim="snap", mode="float", x=R(Fr(float((FG[i] + FG[i + 1]) / 2)))))
    return c


def valid(case):
    try:
        if case["claim"] == "snap":
            return F(case["x"]) >= 0
        cs = case["cs"]
        if not cs or cs[0]["measure"] != 0 or F(cs[0]["beat"]) != 0:
            return False
        for c in cs:
            if F(c["bpm"]) <= 0 or not (1 <= c["met"] <= 8) or F(c["beat"]) < 0 or F(c["beat"]) >= c["met"] or c["measure"] < 0:
                return False
        pos = [(c["measure"], F(c["beat"])) for c in cs]
        if any(a >= b for a, b in zip(pos[:-1], pos[1:])):
            return False
        for q in case.get("qs", []):
            if q["measure"] < 0 or F(q["beat"]) < 0:
                return False
        if case.get("entry", "snap") not in ("snap", "offset", "raw", "bpmlist"):
            return False
        if case.get("entry") == "bpmlist" and case["mode"] != "float":
            return False
        if "sess" in case and not session_ok(case):
            return False
        return True
    except Exception:
        return False


# ------------------------------------------------------------------------------------------ adapters

def num(x, mode):
    f = F(x)
    return f if mode == "exact" else float(f)


def build_impl_changes(cs, mode):
    _, _, BpmChangeSnap, Snap, _ = _imports()
    return [BpmChangeSnap(num(c["bpm"], mode), c["met"], Snap(c["measure"], F(c["beat"]), c["met"])) for c in cs]


def active_met(cs, q):
    pos = (q["measure"], F(q["beat"]))
    met = cs[0]["met"]
    for c in cs:
        if (c["measure"], F(c["beat"])) <= pos:
            met = c["met"]
    return met


def j_cs(cs):
    return [[c["bpm"], R(c["met"]), [c["measure"], c["beat"], R(c["met"])]] for c in cs]


def j_q(cs, q):
    met = q["met"]
    if met == "active":
        met = active_met(cs, q)
    return [q["measure"], q["beat"], None if met is None else R(met)]


def err_class(e):
    if isinstance(e, IndexError):
        return "index"
    if isinstance(e, ZeroDivisionError):
        return "zerodiv"
    if isinstance(e, ValueError):
        return "value"
    return "other:" + type(e).__name__


def same(a, b, mode):
    """implementation number vs model rational"""
    if mode == "exact":
        return Fr(a) == Fr(b)
    return close(Fr(a), Fr(b))


def dom_of(drv, cs):
    d = drv.call("timing.dom", cs=j_cs(cs))["ok"]
    return d


def tie_band(case, t, beat_len):
    """how close (in beats) to a snapping midpoint a time may lie for either neighbour to be accepted: the code
    computes the beat coordinate as (t - T_i)/beat_length in doubles, so its resolution is that of t and T_i
    (|T_i| <= max(|t|, |t0|)) divided by the beat length - 2^-40 relative, as everywhere in the float bridge"""
    mag = max(abs(F(t)), abs(F(case["t0"])))
    bl = F(beat_len)
    if bl <= 0 or case["mode"] == "exact":
        # exact mode: the coordinate is exact; only the Snapper's own doubles (n/d, float(rem)) are involved
        return Fr(1, 2 ** 40)
    return Fr(1, 2 ** 40) * (1 + 2 * mag / bl)


def near_change_fn(case, mode):
    """float mode: is a time within the float bridge's band (2^-40) of a tempo change's time?  There the code's
    `bco.offset > offset` may fall on either side (its stored times carry rounding), and either segment is accepted
    (DESIGN §3, discontinuities).  Never in exact mode."""
    if mode != "float":
        return lambda t: False
    T = change_times(case["cs"], F(case["t0"]))
    return lambda t: any(close(Fr(t), Ti) for Ti in T)


def in_dom_of(dom):
    """the hypotheses of offsets_correct / offsets_correct_any_order (queries are checked separately)"""
    return bool(dom["wf"] and dom["strict"] and dom["first_at_zero"] and dom["sorted"] and dom["grid_compatible"]
                and dom["metronome_ok"])


def handed_rows(case, mode):
    """(bpm, met, offset) triples in the order they are handed to the code, offsets as the numbers really passed"""
    cs = case["cs"]
    T = change_times(cs, F(case["t0"]))
    rows = []
    for c, t in zip(cs, T):
        off = t if mode == "exact" else Fr(float(t))
        rows.append((c.get("k", 0), F(c["bpm"]), c["met"], off))
    rows.sort(key=lambda r: r[0])        # stable: equal / missing keys keep the original order
    return [(b, m, o) for _, b, m, o in rows]


def build_tm(case, mode):
    """the real TimingMap through the entry point named by the case"""
    RAConst, TimingMap, BpmChangeSnap, Snap, Snapper = _imports()
    entry = case.get("entry", "snap")
    if entry == "snap":
        bcs = build_impl_changes(case["cs"], mode)
        bcs = [b for _, b in sorted(zip([c.get("k", 0) for c in case["cs"]], bcs), key=lambda p: p[0])]
        return TimingMap.from_bpm_changes_snap(num(case["t0"], mode), bcs, reseat=False)
    from reamber.algorithms.timing.utils.BpmChangeOffset import BpmChangeOffset
    rows = handed_rows(case, mode)
    cv = (lambda v: v) if mode == "exact" else float
    if entry == "offset":
        return TimingMap.from_bpm_changes_offset([BpmChangeOffset(cv(b), m, cv(o)) for b, m, o in rows])
    if entry == "raw":
        return TimingMap(bpm_changes_offset=[BpmChangeOffset(cv(b), m, cv(o)) for b, m, o in rows])
    if entry == "bpmlist":
        from reamber.base.Bpm import Bpm
        from reamber.base.lists.BpmList import BpmList
        return BpmList([Bpm(offset=float(o), bpm=float(b), metronome=m) for b, m, o in rows]).to_timing_map()
    raise ValueError(entry)


def model_tm(case, drv, mode):
    """the model's stored list for the same entry point ({"ok": [[bpm, met, offset]...]} or {"err": cls})"""
    entry = case.get("entry", "snap")
    if entry == "snap":
        cs = sorted(case["cs"], key=lambda c: c.get("k", 0))
        return drv.call("timing.from_snap", t0=case["t0"], cs=j_cs(cs), reseat=False)
    rows = handed_rows(case, mode)
    if entry == "offset":
        return drv.call("timing.from_offset", tm=[[R(b), R(m), R(o)] for b, m, o in rows])
    if entry == "raw":
        return dict(ok=[[R(b), R(m), R(o)] for b, m, o in rows])
    return drv.call("timing.bpmlist_tm", rows=[[R(o), R(b), R(m)] for b, m, o in rows])


def stored_agree(tm, m_tm, mode):
    """the list the TimingMap stores right after construction = the model's"""
    if "ok" not in m_tm:
        return False
    got = [(Fr(b.bpm), Fr(b.metronome), Fr(b.offset)) for b in tm.bpm_changes_offset]
    want = [(F(b), F(m), F(o)) for b, m, o in m_tm["ok"]]
    if len(got) != len(want):
        return False
    return all(same(g[0], w[0], mode) and g[1] == w[1] and same(g[2], w[2], mode) for g, w in zip(got, want))


def run(case, drv):
    claim = case["claim"]
    return dict(offsets=run_offsets, roundtrip=run_roundtrip, snap=run_snap, beats=run_beats)[claim](case, drv)


def session_case(case):
    """the case that describes the TimingMap AFTER the in-place edit of a session: change i gets `f` times its bpm, every
    change keeps its millisecond time, so the positions of the later changes move (constant metronome only)"""
    cs, i, f = case["cs"], case["sess"]["i"], Fr(case["sess"]["f"])
    met = cs[0]["met"]
    T = change_times(cs, F(case["t0"]))
    bpms = [F(c["bpm"]) * (f if k == i else 1) for k, c in enumerate(cs)]
    out, B = [], Fr(0)
    for k, c in enumerate(cs):
        if k > 0:
            B += (T[k] - T[k - 1]) * bpms[k - 1] / Fr(60000)
        m = int(B // met)
        out.append(dict(bpm=R(bpms[k]), met=met, measure=m, beat=R(B - m * met)))
    c2 = dict(case, cs=out, entry="raw")
    c2.pop("sess")
    return c2


def session_ok(case):
    se = case.get("sess")
    cs = case["cs"]
    return (isinstance(se, dict) and isinstance(se.get("i"), int) and 0 <= se["i"] < len(cs) - 1 and se.get("f") in (2, 4)
            and case.get("entry") in ("offset", "raw") and len({c["met"] for c in cs}) == 1
            and all("k" not in c for c in cs))


def run_offsets(case, drv):
    """one query; with a `sess` field a SESSION on one TimingMap object: query, edit one change's bpm in place (every
    change keeps its millisecond time), query again - the second answer must be the one of the map as it is now"""
    hold = []
    r1 = _run_offsets(case, drv, None, hold)
    if "sess" not in case or not session_ok(case) or not hold or not (r1["ok"] and r1["agree"]) or "impl-raises" in r1["tags"]:
        return r1
    tm = hold[0]
    c2 = session_case(case)
    with exact_mode(case["mode"] == "exact"):
        b = tm.bpm_changes_offset[case["sess"]["i"]]
        b.bpm = b.bpm * case["sess"]["f"]
    r2 = _run_offsets(c2, drv, tm, [])
    out = dict(r1)
    out["ok"] = r1["ok"] and r2["ok"]
    out["agree"] = r1["agree"] and r2["agree"]
    out["dom"] = r1["dom"] and r2["dom"]
    out["kf"] = r1.get("kf") or r2.get("kf")
    out["tags"] = sorted(set(r1["tags"]) | {"session", "session-second:" + ("in-dom" if r2["dom"] else "out-dom")})
    out["maxdev"] = max(r1.get("maxdev", 0.0), r2.get("maxdev", 0.0))
    if not (r2["ok"] and r2["agree"]):
        out["detail"] = dict(phase="second query after the in-place edit", edited_case=c2, second=r2.get("detail"))
    return out


def _run_offsets(case, drv, tm_given, hold):
    RAConst, TimingMap, BpmChangeSnap, Snap, Snapper = _imports()
    mode = case["mode"]
    cs, qs = case["cs"], case["qs"]
    jq = [j_q(cs, q) for q in qs]
    entry = case.get("entry", "snap")
    tags = [mode, f"n{min(len(cs), 4)}", "entry-" + entry]
    if any(a["bpm"] == b["bpm"] and a["met"] != b["met"] for a, b in zip(cs[:-1], cs[1:])):
        tags.append("time-signature-only-change")
    if [c.get("k", 0) for c in cs] != sorted(c.get("k", 0) for c in cs):
        tags.append("list-unordered")
    # --- model
    m_tm = model_tm(case, drv, mode)
    if "ok" in m_tm:
        # queries are normalised by Snap(...) exactly as the implementation constructs them
        m = drv.call("timing.offsets_q", tm=m_tm["ok"], qs=jq)
    else:
        m = m_tm
    # --- implementation
    st_agree = True
    with exact_mode(mode == "exact"):
        try:
            tm = build_tm(case, mode) if tm_given is None else tm_given
            hold.append(tm)
            st_agree = stored_agree(tm, m_tm, mode)
            snaps = [Snap(q[0], F(q[1]), None if q[2] is None else F(q[2])) for q in jq]
            impl = ("ok", [Fr(x) for x in tm.offsets(snaps)] if snaps else [])
        except Exception as e:
            impl = ("err", err_class(e))
    # --- spec
    dom = dom_of(drv, cs)
    qok = drv.call("timing.queries_ok", cs=j_cs(cs), qs=jq)
    in_dom = in_dom_of(dom) and qok.get("ok") is True
    spec = drv.call("timing.time_at_q", t0=case["t0"], cs=j_cs(cs), qs=jq)
    agree = True
    ok = True
    maxdev = 0.0
    detail = {}
    if impl[0] == "err":
        agree = ("err" in m) and m["err"] == impl[1]
        # inside the domain no query may fail
        ok = not (in_dom and "ok" in spec and all(s is not None for s in spec["ok"]))
        if "err" in spec:
            ok = True
        detail = dict(impl=impl, model=m)
        tags.append("impl-raises")
    else:
        vals = impl[1]
        if "ok" not in m or len(m["ok"]) != len(vals):
            agree = False
        else:
            for a, b in zip(vals, m["ok"]):
                maxdev = max(maxdev, dev(a, F(b)))
                if not same(a, F(b), mode):
                    agree = False
        if "ok" in spec:
            if len(spec["ok"]) != len(vals):
                ok = False
            for a, s in zip(vals, spec["ok"]):
                if s is not None and not same(a, F(s), mode):
                    ok = False
        if not st_agree:
            agree = False
        if not (agree and ok):
            detail = dict(impl=[str(v) for v in vals], model=m, spec=spec, stored_agree=st_agree,
                          stored=[[str(b.bpm), str(b.metronome), str(b.offset)] for b in tm.bpm_changes_offset])
    if not (dom["sorted"] and dom["metronome_ok"]):
        ok = True      # a metronome change inside a measure has no agreed meaning: the specification is silent
    kf = None
    if not ok and not dom["grid_compatible"]:
        kf = "D22"
    nontrivial = len(cs) >= 2 and any((q["measure"], F(q["beat"])) > (cs[1]["measure"], F(cs[1]["beat"])) for q in qs)
    if not dom["grid_compatible"]:
        tags.append("grid-incompatible")
    return dict(claim="offsets", ok=ok, agree=agree, dom=in_dom, kf=kf, tags=tags, nontrivial=nontrivial, maxdev=maxdev,
                detail=detail)


def _tm_from(case, mode):
    return build_tm(case, mode)


def run_roundtrip(case, drv):
    RAConst, TimingMap, BpmChangeSnap, Snap, Snapper = _imports()
    mode = case["mode"]
    cs, ts = case["cs"], case["ts"]
    tags = [mode, f"n{min(len(cs), 4)}", "entry-" + case.get("entry", "snap")]
    if any(a["bpm"] == b["bpm"] and a["met"] != b["met"] for a, b in zip(cs[:-1], cs[1:])):
        tags.append("time-signature-only-change")
    m_tm = model_tm(case, drv, mode)
    m = drv.call("timing.roundtrip", tm=m_tm["ok"], qs=ts) if "ok" in m_tm else m_tm
    st_agree = True
    with exact_mode(mode == "exact"):
        try:
            tm = _tm_from(case, mode)
            st_agree = stored_agree(tm, m_tm, mode)
            offs = [num(t, mode) for t in ts]
            sn = tm.snaps(offs, Snapper())
            impl_sn = [[int(s.measure), R(Fr(s.beat)), R(Fr(s.metronome))] for s in sn]
            back = [Fr(x) for x in tm.offsets(list(sn))]
            impl = ("ok", impl_sn, back)
        except Exception as e:
            impl = ("err", err_class(e))
    dom = dom_of(drv, cs)
    in_dom = in_dom_of(dom)
    spec = drv.call("timing.roundtrip_spec", t0=case["t0"], cs=j_cs(cs), qs=ts)["ok"]
    ok, agree, boundary, maxdev = True, True, False, 0.0
    detail = {}
    if impl[0] == "err":
        agree = "err" in m and m["err"] == impl[1]
        # a time before the first change is the only in-domain failure class (covered explicitly)
        ok = any(s["before_first"] for s in spec) if in_dom else True
        tags.append("impl-raises")
        detail = dict(impl=impl, model=m)
    else:
        _, impl_sn, back = impl
        if "ok" not in m:
            agree = False
        else:
            msn, mback = m["ok"]["snaps"], m["ok"]["back"]
            near_change = near_change_fn(case, mode)
            flipped = set()
            for i, (a, b) in enumerate(zip(impl_sn, msn)):
                if a[0] != b[0] or F(a[1]) != F(b[1]):
                    flipped.add(i)
                    # snapping is a discontinuity: accept a flip only next to a midpoint; so is the choice of the
                    # segment: accept either one only for a time within the band of a change's time
                    if spec[i]["tie_margin"] is not None and \
                            abs(F(spec[i]["tie_margin"])) < tie_band(case, ts[i], spec[i]["beat_len"]):
                        boundary = True
                    elif near_change(F(ts[i])):
                        boundary = True
                        tags.append("float-boundary-segment")
                    else:
                        agree = False
            for i, (a, b) in enumerate(zip(back, mback)):
                if i in flipped:
                    continue         # a tolerated flip (above) legitimately moves the time; judged by the spec below
                maxdev = max(maxdev, dev(a, F(b)))
                if not same(a, F(b), mode):
                    agree = False
        for i, (t, a) in enumerate(zip(ts, back)):
            s = spec[i]
            if s["before_first"]:
                ok = False   # implementation must raise for it
                continue
            t = F(t)
            if s["on_grid"]:
                if not same(a, t, mode):
                    ok = False
            else:
                lim = F(s["beat_len"]) / 192
                if abs(Fr(a) - t) > lim + (0 if mode == "exact" else Fr(1, 2 ** 30) + Fr(1, 2 ** 40) * abs(t)):
                    ok = False
        if not st_agree:
            agree = False
        if not (ok and agree):
            detail = dict(impl_snaps=impl_sn, impl_back=[str(b) for b in back], model=m, spec=spec, stored_agree=st_agree)
    kf = "D22" if (not ok and not dom["grid_compatible"]) else None
    nontrivial = len(cs) >= 2 and any(not s["on_grid"] for s in spec) or len(ts) >= 3
    if any(not s["on_grid"] for s in spec):
        tags.append("off-grid")
    return dict(claim="roundtrip", ok=ok, agree=agree, dom=in_dom, kf=kf, tags=tags, nontrivial=nontrivial,
                maxdev=maxdev, boundary=boundary, detail=detail)


def run_snap(case, drv):
    RAConst, TimingMap, BpmChangeSnap, Snap, Snapper = _imports()
    mode = case["mode"]
    x = F(case["x"])
    xi = x if mode == "exact" else float(x)
    xe = Fr(xi)                      # what the implementation actually received
    m = F(drv.call("timing.snap", x=R(xe), n=96)["ok"])
    try:
        sn = Snapper()
        y = Fr(sn.snap(xi))
        y2 = Fr(sn.snap(y if mode == "exact" else float(y)))
    except Exception as e:
        # the snapper must return a value for every non-negative beat
        return dict(claim="snap", ok=False, agree=False, dom=True, tags=[mode, "impl-raises"], nontrivial=True,
                    detail=dict(x=str(xe), impl=err_class(e), model=str(m)))
    sp = drv.call("timing.snap_spec", x=R(xe), y=R(y), n=96)["ok"]
    boundary = False
    agree = (y == m)
    ok = sp["nearest"] and y2 == y
    if not sp["nearest"] and abs(F(sp["margin"])) < Fr(1, 2 ** 40) and sp["member"]:
        ok = (y2 == y)
        boundary = True
    if not agree and sp["member"] and abs(F(sp["margin"])) < Fr(1, 2 ** 40):
        agree = True
        boundary = True
    tags = [mode, "on-grid" if sp["x_on_grid"] else "off-grid"]
    fg = None
    if mode == "float":
        # second, equality-based stream: the model on the exact values of the doubles n/d.  The code's
        # `rem - val[ix-1]` and `val[ix] - rem` are exact there (Sterbenz) unless rem < val[1]/2, so the branch
        # taken - including the tie rule - must be the model's.
        G, FG, FGi, FGj = py_grid()
        q = math.floor(xe)
        rem = xe - q
        v = F(drv.call("timing.snap_g", x=R(xe), g=FGj)["ok"]) - q
        exp_y = G[FGi[v]] + q if v in FGi else None
        strict = not (rem < FG[1] and abs(2 * rem - FG[1]) < Fr(1, 2 ** 50))
        fg = dict(model_on_doubles=str(exp_y))
        i = FGi.get(v)
        if i is not None and i > 0 and (rem - FG[i - 1] == FG[i] - rem or (i + 1 < len(FG) and rem - FG[i] == FG[i + 1] - rem)):
            tags.append("exact-tie")
        if strict and exp_y != y:
            agree = False
    detail = {} if (ok and agree) else dict(x=str(xe), impl=str(y), impl_twice=str(y2), model=str(m), spec=sp, fg=fg)
    return dict(claim="snap", ok=ok, agree=agree, dom=True, tags=tags,
                nontrivial=not sp["x_on_grid"], boundary=boundary, detail=detail)


def run_beats(case, drv):
    RAConst, TimingMap, BpmChangeSnap, Snap, Snapper = _imports()
    mode = case["mode"]
    cs, ts = case["cs"], case["ts"]
    m_tm = model_tm(case, drv, mode)
    m = drv.call("timing.beats", tm=m_tm["ok"], qs=ts) if "ok" in m_tm else m_tm
    st_agree = True
    with exact_mode(mode == "exact"):
        try:
            tm = _tm_from(case, mode)
            st_agree = stored_agree(tm, m_tm, mode)
            impl = ("ok", [Fr(b) for b in tm.beats([num(t, mode) for t in ts], Snapper())])
        except Exception as e:
            impl = ("err", err_class(e))
    dom = dom_of(drv, cs)
    in_dom = in_dom_of(dom)
    spec = drv.call("timing.roundtrip_spec", t0=case["t0"], cs=j_cs(cs), qs=ts)["ok"]
    ok, agree, boundary = True, True, False
    detail = {}
    if impl[0] == "err":
        agree = "err" in m and m["err"] == impl[1]
        ok = any(s["before_first"] for s in spec) if in_dom else True
        detail = dict(impl=impl, model=m)
    else:
        vals = impl[1]
        near_change = near_change_fn(case, mode)
        if "ok" not in m or len(m["ok"]) != len(vals):
            agree = False
        else:
            # with one metronome the running sum telescopes: the count of a time depends on that time's snap only,
            # so a discontinuity (snapping tie, segment choice at a change's time) is accepted per time
            for i, (a, b) in enumerate(zip(vals, m["ok"])):
                if a != F(b):
                    tie = spec[i]["tie_margin"] is not None and \
                        abs(F(spec[i]["tie_margin"])) < tie_band(case, ts[i], spec[i]["beat_len"])
                    if tie or near_change(F(ts[i])):
                        boundary = True
                    else:
                        agree = False
        # spec: beats of two times differ by exactly their beat distance (on-grid times), within 1/96 otherwise;
        # and never decrease with time
        for i in range(len(ts)):
            for k in range(len(ts)):
                if spec[i]["before_first"] or spec[k]["before_first"]:
                    ok = False
                    continue
                d_impl = vals[k] - vals[i]
                d_spec = F(spec[k]["abs_beat"]) - F(spec[i]["abs_beat"])
                if spec[i]["on_grid"] and spec[k]["on_grid"]:
                    if d_impl != d_spec:
                        ok = False
                elif abs(d_impl - d_spec) > Fr(1, 96):
                    ok = False
                if F(ts[i]) <= F(ts[k]) and d_impl < 0:
                    ok = False
        if not st_agree:
            agree = False
        if not (ok and agree):
            detail = dict(impl=[str(v) for v in vals], model=m, spec=spec, stored_agree=st_agree)
    kf = "D22" if (not ok and not dom["grid_compatible"]) else None
    return dict(claim="beats", ok=ok, agree=agree, dom=in_dom, kf=kf,
                tags=[mode, f"n{min(len(cs), 4)}", "entry-" + case.get("entry", "snap")],
                nontrivial=len(cs) >= 2 and len(ts) >= 2, boundary=boundary, detail=detail)
