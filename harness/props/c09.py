"""C09 — read -> convert -> write yields a valid target file with the source's timeline.

End to end on generated *files* of all five source formats and every legal target (16 pairs): the REAL reader reads
the file, the REAL converter converts, the REAL writer writes; the written file is parsed by the target format's Lean
`denote` and the source file by the source format's Lean `denote` (driver op `c09.abs`, which also abstracts both to
`Spec/Pipeline.lean: AChart`), and the two abstract charts are compared by `Pipeline.closeTo` (driver op `c09.close`)
with the resolution of the target: < 1 ms into osu / Quaver; exact on the snap grid, else 1/96 beat into StepMania,
1/192 beat into BMS.

ok    = the written file is valid in the target format (the target's validity flags of `c09.abs`) and
        closeTo(res) (source denotation) (target denotation) — one statement, evaluated by the driver.
agree = the links the composition theorems of Props/C09.lean take from the parts hold on this case: the in-memory
        chart after `read` is the source's denotation (reader = spec) and the in-memory chart after `convert` is
        that chart with the columns shifted by the argument only (C08 content) — both evaluated with the same Lean
        `closeTo`, resolution 0.
dom   = inside the hypotheses of the parts (source within C01/C02/C04/C06/C07's domain, the target supports the
        inferred key count, nothing before the first tempo point for the beat-based writers, one symbol per cell, and
        no open finding's predicate holds).
"""
import logging
import math
import warnings
from fractions import Fraction as Fr

from lib.rat import R, F

from props import c01, c02, c04, c06, c07

ID = "C09"
QUICK_N = 640
THOROUGH_N = 12800
QUICK_BUDGET_S = 80
THOROUGH_BUDGET_S = 900
RULE = ("16 source->target pairs in rotation; source files from the part checks' generators (c01.gen_text, c02.gen main/offgrid, "
        "c04.gen, c06.gen_doc, c07.gen) re-drawn until the target supports the inferred key count, plus millisecond charts "
        "(1-5 tempo points, first at 0 or not, on / off measure lines; 0-40 hits and holds on beat grids, whole and fractional "
        "milliseconds; scroll velocities before / after the first tempo point; timing points listed in / out of time order; tied tempo points (same time, equal / different tempo, three-way); osu meters "
        "3/4, 5/4, 7/4 lasting whole sections) rendered as osu and Quaver files; BMS targets over "
        "the layouts that have enough lanes, column shift 0-2; non-trivial = at least 3 objects and (a hold or 2 tempo points)")
ASSUMPTIONS = [
    "the parts' domains are taken over as they are (C01 dialect, C02 without risky comments / non-empty #STOPS, C04 without "
    "channel-02 lines, C06 with declared lanes, C07 well-formed levels)",
    "StepMania's mines / lifts / fakes / key sounds / rolls have no counterpart in any target and are not part of the abstract chart",
    "a written BMS file with channel-02 (time signature) lines is outside Spec.BMS.denote: such cases are not judged",
]
TRUSTED_EXTRA = ["PyYAML parses the written .qua text before the Lean denotation sees it (as in C06)"]

PAIRS = [("osu", "qua"), ("osu", "sm"), ("osu", "bms"), ("qua", "osu"), ("qua", "sm"), ("qua", "bms"),
         ("sm", "osu"), ("sm", "qua"), ("sm", "bms"), ("bms", "osu"), ("bms", "qua"), ("bms", "sm"),
         ("o2j", "osu"), ("o2j", "qua"), ("o2j", "sm"), ("o2j", "bms")]
QUA_KEYS = {4: "Keys4", 7: "Keys7", 8: "Keys8"}
SM_KEYS = [3, 4, 6, 7, 8]
EPS = [1, 2 ** 30]
E_BPMS = [60, 75, 100, 120, 125, 128, 150, 160, 200, 240, 250, 300, 187.5, 93.75]
BMS_LANES = {k: len(v) for k, v in c04.LAYOUTS.items()}
MAX_MEASURES = 150
MAX_TEXT = 80000


PIPELINE_LIMIT_S = 8


def in_child(fn, seconds):
    """run fn() in a forked child; None when it does not finish within `seconds`"""
    import os
    import pickle
    import select
    import signal
    r, w = os.pipe()
    pid = os.fork()
    if pid == 0:
        try:
            os.close(r)
            data = pickle.dumps(fn())
            with os.fdopen(w, "wb") as f:
                f.write(data)
        finally:
            os._exit(0)
    os.close(w)
    chunks = []
    deadline = __import__("time").time() + seconds
    try:
        while True:
            left = deadline - __import__("time").time()
            if left <= 0:
                os.kill(pid, signal.SIGKILL)
                return None
            ready, _, _ = select.select([r], [], [], left)
            if not ready:
                os.kill(pid, signal.SIGKILL)
                return None
            b = os.read(r, 1 << 16)
            if not b:
                break
            chunks.append(b)
    finally:
        os.close(r)
        try:
            os.waitpid(pid, 0)
        except ChildProcessError:
            pass
    try:
        return pickle.loads(b"".join(chunks))
    except Exception:
        return None


class TooSlow(BaseException):
    pass


class time_limit:
    def __init__(self, seconds):
        self.seconds = seconds
        self.armed = False

    def _raise(self, *a):
        raise TooSlow()

    def __enter__(self):
        import signal
        import threading
        if threading.current_thread() is threading.main_thread():
            self.old = signal.signal(signal.SIGALRM, self._raise)
            signal.setitimer(signal.ITIMER_REAL, self.seconds)
            self.armed = True

    def __exit__(self, *a):
        import signal
        if self.armed:
            signal.setitimer(signal.ITIMER_REAL, 0)
            signal.signal(signal.SIGALRM, self.old)
        return False


def _quiet():
    warnings.filterwarnings("ignore")
    logging.getLogger("reamber").setLevel(logging.ERROR)


def _imports():
    from reamber.osu.OsuMap import OsuMap
    from reamber.quaver.QuaMap import QuaMap
    from reamber.sm.SMMapSet import SMMapSet
    from reamber.bms.BMSMap import BMSMap
    from reamber.bms.BMSChannel import BMSChannel
    from reamber.o2jam.O2JMapSet import O2JMapSet
    import reamber.algorithms.convert as cv
    return dict(OsuMap=OsuMap, QuaMap=QuaMap, SMMapSet=SMMapSet, BMSMap=BMSMap, BMSChannel=BMSChannel,
                O2JMapSet=O2JMapSet, cv=cv)


# ------------------------------------------------------------------------------------------ generators

def _fmt_ms(x):
    return repr(float(x)) if x != int(x) else str(int(x))


def gen_ms_chart(rng, tgt, tier, force_keys=None):
    """a chart in milliseconds: dict(keys, bpms[(t,bpm)], hits[(t,c)], holds[(t,c,len)], svs[(t,mult)])"""
    if force_keys:
        keys = rng.choice(force_keys)
    elif tgt == "qua":
        keys = rng.choice([4, 7, 8])
    elif tgt == "sm":
        keys = rng.choice(SM_KEYS)
    elif tgt == "bms":
        keys = rng.choice([4, 5, 7, 8, 9, 10, 14, 16, 18])
    else:
        keys = rng.choice([1, 2, 3, 4, 4, 5, 6, 7, 7, 8, 9, 10, 12, 18])
    t0 = rng.choice([0, 0, 0, 1234, 500, 37, 2000.5, -250, 10.25, 333])
    if tgt == "bms" and rng.random() < 0.5:
        t0 = 0
    nb = rng.choice([1, 1, 2, 2, 3, 5])
    style = rng.choice(["grid", "grid", "int", "dec"])
    bpms = []
    t = Fr(t0)
    for i in range(nb):
        r = rng.random()
        if style == "grid" or r < 0.5:
            bpm = float(rng.choice(E_BPMS))
        elif r < 0.8:
            bpm = round(rng.uniform(60, 300), rng.choice([0, 1, 3]))
        else:
            bpm = round(rng.uniform(40, 400), rng.choice([4, 6, 9]))
        bpms.append((float(t), bpm))
        beat = Fr(60000) / Fr(bpm)
        if style == "grid" or rng.random() < 0.5:
            t = t + beat * 4 * rng.choice([1, 2, 2, 3, 4, 8])          # on a measure line
        else:
            t = t + beat * Fr(rng.randint(1, 64), rng.choice([1, 2, 4, 3, 16]))
            if style != "grid":
                t = Fr(rng.choice([int(t), float(round(float(t), 1))]))
        if float(t) <= bpms[-1][0]:
            t = Fr(bpms[-1][0]) + 1000
    # tied tempo points: same time with a different / the same tempo, sometimes three at one time (the later row is in force)
    if rng.random() < 0.25:
        j = rng.randrange(len(bpms))
        t_tie, b_last = bpms[j]
        extra = [(t_tie, float(rng.choice([b_last, rng.choice(E_BPMS), round(rng.uniform(60, 300), 1)]))) for _ in range(rng.choice([1, 1, 2]))]
        bpms[j:j] = extra              # the original stays the last row of the tie
    end = Fr(bpms[-1][0]) + (Fr(60000) / Fr(bpms[-1][1])) * 4 * rng.choice([1, 2, 4])
    n = rng.choice([0, 1, 3, 6, 12, 25, 40 if tier == "thorough" else 25])
    before = rng.random() < 0.08          # something before the first tempo point
    occupied = {}                          # column -> list of (lo, hi) holds / points
    hits, holds = [], []

    def draw_time():
        if before and rng.random() < 0.3:
            return Fr(t0) - rng.randint(1, 900)
        i = rng.randrange(len(bpms))
        lo = Fr(bpms[i][0])
        hi = Fr(bpms[i + 1][0]) if i + 1 < len(bpms) else end
        if style == "grid":
            beat = Fr(60000) / Fr(bpms[i][1])
            den = rng.choice([1, 2, 4, 4, 3, 6, 8, 12, 16, 24, 48])
            kmax = max(1, int((hi - lo) / beat * den))
            return Fr(float(lo + beat * Fr(rng.randrange(kmax), den)))
        x = lo + (hi - lo) * Fr(rng.randrange(1000), 1000)
        if style == "int":
            return Fr(int(x))
        return Fr(float(round(float(x), rng.choice([1, 2, 3]))))

    def free(c, lo, hi):
        for a, b in occupied.get(c, []):
            if not (hi < a or b < lo):
                return False
        return True

    allow_inside = rng.random() < 0.06
    for _ in range(n):
        c = rng.randrange(keys)
        t1 = draw_time()
        if rng.random() < 0.3:
            t2 = draw_time()
            lo, hi = min(t1, t2), max(t1, t2)
            if hi - lo < 1:
                hi = lo + rng.choice([1, 50, 125])
            if free(c, lo, hi) or allow_inside:
                holds.append((float(lo), c, float(hi - lo)))
                occupied.setdefault(c, []).append((lo, hi))
        else:
            if free(c, t1, t1) or (allow_inside and rng.random() < 0.5):
                hits.append((float(t1), c))
                occupied.setdefault(c, []).append((t1, t1))
    if (hits or holds) and rng.random() < 0.85 and free(keys - 1, end, end):
        hits.append((float(end), keys - 1))            # the highest column is in use: the inferred key count is `keys`
    svs = []
    for _ in range(rng.choice([0, 0, 1, 3])):
        svs.append((float(rng.choice([t0 - 500, t0, t0 + 250, float(end)])), rng.choice([1.0, 0.5, 2.0, 1.25])))
    rng.shuffle(hits)
    return dict(keys=keys, bpms=bpms, hits=hits, holds=holds, svs=svs)


def osu_lines(ch, rng):
    k = ch["keys"]
    L = ["osu file format v14", "", "[General]", "AudioFilename: audio.mp3", "AudioLeadIn: 0", "PreviewTime: -1", "Countdown: 0",
         "SampleSet: Soft", "StackLeniency: 0.7", "Mode: 3", "LetterboxInBreaks: 0", "SpecialStyle: 0", "WidescreenStoryboard: 0",
         "", "[Editor]", "DistanceSpacing: 1", "BeatDivisor: 4", "GridSize: 8", "TimelineZoom: 1", "", "[Metadata]",
         "Title:" + rng.choice(["Song", "a b", "Re:Zero"]), "TitleUnicode:Song", "Artist:" + rng.choice(["me", "A feat. B"]),
         "ArtistUnicode:me", "Creator:c", "Version:" + rng.choice(["Hard", "7K Another"]), "Source:", "Tags:a b", "BeatmapID:0",
         "BeatmapSetID:-1", "", "[Difficulty]", "HPDrainRate:8", f"CircleSize:{k}", "OverallDifficulty:8", "ApproachRate:5",
         "SliderMultiplier:1.4", "SliderTickRate:1", "", "[Events]", "//Background and Video events", '0,0,"bg.png",0,0',
         "//Break Periods", "//Storyboard Layer 0 (Background)", "//Storyboard Layer 1 (Fail)", "//Storyboard Layer 2 (Pass)",
         "//Storyboard Layer 3 (Foreground)", "//Storyboard Sound Samples", "", "[TimingPoints]"]
    # meters other than 4/4 last for whole sections (several bars); the order of the lines is free in the format
    waltz = rng.random() < 0.3
    tps = [(t, f"{_fmt_ms(t)},{repr(60000 / b)},{rng.choice([3, 5, 7, 4]) if waltz else 4},1,0,50,1,0") for t, b in ch["bpms"]]
    tps += [(t, f"{_fmt_ms(t)},{repr(-100 / m)},4,1,0,50,0,0") for t, m in ch["svs"]]
    r = rng.random()
    if r < 0.6:
        tps.sort(key=lambda p: p[0])
    elif r < 0.8:
        tps.reverse()
    else:
        rng.shuffle(tps)
    L += [p[1] for p in tps] + ["", "", "[HitObjects]"]
    objs = []
    for t, c in ch["hits"]:
        lo, hi = c01.col_range(c, k)
        x = rng.choice([lo, hi, (512 * c + 256) // k])
        objs.append((t, f"{x},192,{_fmt_ms(t)},1,0,0:0:0:0:"))
    for t, c, ln in ch["holds"]:
        lo, hi = c01.col_range(c, k)
        x = rng.choice([lo, hi, (512 * c + 256) // k])
        objs.append((t, f"{x},192,{_fmt_ms(t)},128,0,{_fmt_ms(t + ln)}:0:0:0:0:"))
    if rng.random() < 0.7:
        objs.sort(key=lambda p: p[0])
    L += [p[1] for p in objs]
    return L


def qua_doc(ch, rng):
    num = lambda x: int(x) if x == int(x) else float(x)
    doc = dict(AudioFile="audio.mp3", BackgroundFile="bg.png", Mode=QUA_KEYS.get(ch["keys"], "Keys4"), Title="Song", Artist="me",
               Creator="c", DifficultyName="Hard", Tags="a b")
    hos = []
    for t, c in ch["hits"]:
        hos.append(dict(StartTime=num(t), Lane=c + 1, KeySounds=[]))
    for t, c, ln in ch["holds"]:
        hos.append(dict(StartTime=num(t), Lane=c + 1, EndTime=num(t + ln), KeySounds=[]))
    if rng.random() < 0.5:
        rng.shuffle(hos)
    doc["TimingPoints"] = [dict(StartTime=num(t), Bpm=float(b)) for t, b in ch["bpms"]]
    r = rng.random()
    if r < 0.2:
        doc["TimingPoints"].reverse()
    elif r < 0.4:
        rng.shuffle(doc["TimingPoints"])
    doc["SliderVelocities"] = [dict(StartTime=num(t), Multiplier=float(m)) for t, m in ch["svs"]]
    doc["HitObjects"] = hos
    return doc


def _bms_keys(lines, layout):
    chans = c04.LAYOUTS[layout]
    cols = [chans.index(l[4:6]) for l in (x.strip() for x in lines)
            if len(l) > 7 and l[0] == "#" and l[1:4].isdigit() and l[4:6] in chans and l[6] == ":" and l[7:].strip("0")]
    return (max(cols) + 1) if cols else None


def _o2j_keys(case):
    """inferred key count of every level"""
    out = []
    for lv in case["levels"]:
        cols = [p["ch"] - 2 for p in lv if 2 <= p.get("ch", 0) <= 8 and any(e and e[0] for e in p.get("ev", []) if isinstance(e, list))]
        out.append((max(cols) + 1) if cols else None)
    return out


def _sm_on_lines(items, zero_offset):
    """move every #BPMS change of a c02 case onto a measure line (and, for BMS targets, #OFFSET to 0)"""
    for it in items:
        if it[0] == "bpms":
            seen, out = set(), []
            for b, v in it[1]:
                try:
                    k = int(round(float(b) / 4)) * 4
                except ValueError:
                    k = 0
                if k not in seen:
                    seen.add(k)
                    out.append((str(k), v))
            it[1][:] = out
        if zero_offset and it[0] == "tag" and it[1] == "OFFSET":
            it[2] = "0"


def _supported(tgt, keys):
    if keys is None:
        return False
    if tgt == "qua":
        return keys in QUA_KEYS
    if tgt == "sm":
        return keys in SM_KEYS
    return True


def gen_source(rng, src, tgt, tier, i):
    friendly = rng.random() < 0.75
    if src == "osu":
        if friendly:
            ch = gen_ms_chart(rng, tgt, tier)
            return "friendly", dict(lines=osu_lines(ch, rng))
        return "part", dict(lines=c01.gen_text(rng, tier))
    if src == "qua":
        if friendly:
            ch = gen_ms_chart(rng, tgt, tier, force_keys=[4, 7, 8] if tgt in ("osu", "bms") else ([4, 7, 8] if tgt == "sm" else None))
            return "friendly", dict(doc=qua_doc(ch, rng), style="block", sort_keys=False)
        return "part", dict(doc=c06.gen_doc(rng), style=rng.choice(["block", "block", "mixed", "flow"]), sort_keys=rng.random() < 0.3)
    if src == "sm":
        for _ in range(40):
            case = c02.gen(rng, tier, i)
            if case.get("stream") in ("main", "offgrid") and "items" in case:
                types = [it[1]["type"] for it in case["items"] if it[0] == "chart"]
                ks = [c02.KEYED.get(t) for t in types]
                if tgt != "qua" or all(k in QUA_KEYS for k in ks):
                    if rng.random() < 0.6:
                        _sm_on_lines(case["items"], zero_offset=(tgt == "bms"))
                    return "part", dict(items=case["items"], stream=case["stream"])
        return "part", dict(items=case["items"], stream=case.get("stream", "main")) if "items" in case else dict(text=c02.render(case))
    if src == "bms":
        case = None
        for _ in range(60):
            case = c04.gen(rng, tier, i)
            if _supported(tgt, _bms_keys(case["lines"], case["layout"])):
                break
        lines = list(case["lines"])
        if rng.random() < 0.6:
            up = [l.strip().upper() for l in lines]
            for key, val in (("#TITLE", "song"), ("#ARTIST", "me"), ("#PLAYLEVEL", "3")):
                if not any(u.startswith(key + " ") for u in up):
                    lines.insert(0, f"{key} {val}")
        return "part", dict(layout=case["layout"], lines=lines)
    if src == "o2j":
        case = None
        for _ in range(60):
            case = c07.gen(rng, tier, i)
            if case.get("claim") != "read" or case.get("opts"):
                continue
            if tgt != "sm" or all(k in SM_KEYS for k in _o2j_keys(case)):
                break
        return "part", {k: case[k] for k in ("hdr", "levels", "tail") if k in case}
    raise ValueError(src)


def gen(rng, tier, i):
    src, tgt = PAIRS[i % len(PAIRS)]
    origin, source = gen_source(rng, src, tgt, tier, i)
    opts = {}
    if tgt == "bms":
        opts["shift"] = rng.choice([0, 0, 0, 1, 2]) if src != "sm" else 0
        opts["layout"] = rng.choice(["BME", "BME", "PMS_BME", "BMS"])
    return dict(claim=f"{src}->{tgt}", src=src, tgt=tgt, origin=origin, source=source, opts=opts)


def _osu_case(tgt, bpms, hits, holds, keys=4, svs=(), **opts):
    import random
    ch = dict(keys=keys, bpms=list(bpms), hits=list(hits), holds=list(holds), svs=list(svs))
    return dict(claim=f"osu->{tgt}", src="osu", tgt=tgt, origin="corpus", source=dict(lines=osu_lines(ch, random.Random(1))), opts=opts)


def _qua_case(tgt, bpms, hits, holds, keys=4, svs=(), **opts):
    import random
    ch = dict(keys=keys, bpms=list(bpms), hits=list(hits), holds=list(holds), svs=list(svs))
    return dict(claim=f"qua->{tgt}", src="qua", tgt=tgt, origin="corpus",
                source=dict(doc=qua_doc(ch, random.Random(1)), style="block", sort_keys=False), opts=opts)


SM_TEXT = ("#TITLE:t;\n#ARTIST:a;\n#OFFSET:-0.5;\n#BPMS:0.000=120.000,\n8=60;\n#STOPS:;\n#NOTES:\n     %s:\n     d:\n     Hard:\n     5:\n"
           "     0,0,0,0,0:\n%s\n;\n")


def corpus():
    c = []
    hits4 = [(1234.0, 0), (1734.0, 1), (3359.0, 3)]
    holds4 = [(2234.0, 2, 500.0)]
    bp = [(1234.0, 120.0), (3234.0, 240.0)]
    # D14 witness: osu chart whose first timing point is not at 0 ms -> StepMania
    c.append(_osu_case("sm", bp, hits4, holds4))
    # timing points listed out of time order (seeded class C09-A) and a 3/4 meter lasting several bars (C09-B)
    un = _osu_case("sm", [(34.0, 120.0), (234.0, 240.0)], [(34.0, 0), (2234.0, 3)], [(1234.0, 2, 500.0)])
    L = un["source"]["lines"]
    i0 = L.index("[TimingPoints]")
    L[i0 + 1], L[i0 + 2] = L[i0 + 2], L[i0 + 1]
    c.append(un)
    wz = _osu_case("bms", [(0.0, 200.0)], [(0.0, 0), (900.0, 1), (2700.0, 3), (5400.0, 2)], [], shift=0, layout="BME")
    L = wz["source"]["lines"]
    i0 = L.index("[TimingPoints]")
    L[i0 + 1] = "0,300.0,3,1,0,50,1,0"
    c.append(wz)
    # tied tempo points (seeded class C09-C): same time / different tempo mid-chart and at the first point, equal tempo, three
    # at one time; the later row is in force.  Judged on every target.
    ties = [[(0.0, 120.0), (2000.0, 100.0), (2000.0, 150.0)], [(0.0, 150.0), (0.0, 120.0)], [(0.0, 120.0), (2000.0, 150.0), (2000.0, 150.0)],
            [(0.0, 120.0), (2000.0, 60.0), (2000.0, 100.0), (2000.0, 150.0)]]
    for bp_t in ties:
        hs = [(0.0, 0), (1000.0, 1), (2500.0, 2), (4000.0, 3), (5333.0, 3)]
        for tgt in ("sm", "qua", "bms"):
            c.append(_osu_case(tgt, bp_t, hs, [(3000.0, 0, 800.0)], shift=0, layout="BME"))
        for tgt in ("sm", "osu", "bms"):
            c.append(_qua_case(tgt, bp_t, hs, [(3000.0, 0, 800.0)], shift=0, layout="BME"))
    o2t = dict(hdr=c07._hdr(120.0), levels=[[dict(m=0, ch=1, ev=[150.0]), dict(m=0, ch=2, ev=[c07.H, c07.Z]), dict(m=1, ch=8, ev=[c07.HD, c07.TL]),
                                            dict(m=3, ch=5, ev=[c07.H])], [], []], tail=[])
    for tgt in ("osu", "qua", "sm", "bms"):
        c.append(dict(claim=f"o2j->{tgt}", src="o2j", tgt=tgt, origin="corpus", source=o2t, opts=dict(shift=0, layout="BME")))
    # D15 witness: 6K dance-solo -> osu
    rows6 = "\n".join(["100000", "010000", "001000", "000100", "000010", "000001", "200000", "300001"])
    c.append(dict(claim="sm->osu", src="sm", tgt="osu", origin="corpus", source=dict(text=SM_TEXT % ("dance-solo", rows6)), opts={}))
    c.append(dict(claim="sm->qua", src="sm", tgt="qua", origin="corpus",
                  source=dict(text=SM_TEXT % ("dance-single", "1000\n0100\n0010\n0001\n,\n2000\n0000\n3000\n0001")), opts={}))
    c.append(dict(claim="sm->bms", src="sm", tgt="bms", origin="corpus",
                  source=dict(text=(SM_TEXT % ("kb7-single", "1000000\n0100000\n0010000\n0000001\n,\n2000000\n0000000\n3000000\n0001000")).replace("-0.5", "0")),
                  opts=dict(shift=0, layout="BME")))
    for tgt in ("qua", "bms"):
        c.append(_osu_case(tgt, [(0.0, 120.0), (4000.0, 150.0)], [(0.0, 0), (500.0, 1), (4400.0, 3)], [(1000.0, 2, 750.0)],
                           shift=0, layout="BME"))
    for tgt in ("osu", "sm", "bms"):
        c.append(_qua_case(tgt, [(0.0, 120.0), (4000.0, 150.0)], [(0.0, 0), (500.0, 1), (4400.0, 3)], [(1000.0, 2, 750.0)],
                           shift=0, layout="BME"))
    # Quaver: a scroll velocity before the first tempo point (QuaToSM takes the minimum over all lists)
    c.append(_qua_case("sm", [(1000.0, 120.0)], [(1000.0, 0), (1500.0, 3)], [], svs=[(0.0, 1.0)]))
    bms = ["#TITLE a", "#ARTIST x", "#BPM 120", "#PLAYLEVEL 3", "#LNOBJ ZZ", "#WAV01 k.wav", "#00111:01000100", "#00212:01ZZ",
           "#00203:0078", "#00314:01"]
    for tgt in ("osu", "qua", "sm"):
        c.append(dict(claim=f"bms->{tgt}", src="bms", tgt=tgt, origin="corpus", source=dict(layout="BMS", lines=bms), opts={}))
    o2j = dict(hdr=c07._hdr(120.0), levels=[[dict(m=0, ch=2, ev=[c07.H, c07.Z]), dict(m=1, ch=8, ev=[c07.HD, c07.TL]),
                                            dict(m=2, ch=1, ev=[240.0])], [], []], tail=[])
    for tgt in ("osu", "qua", "sm", "bms"):
        c.append(dict(claim=f"o2j->{tgt}", src="o2j", tgt=tgt, origin="corpus", source=o2j, opts=dict(shift=1, layout="BME")))
    return c


def valid(case):
    try:
        if (case["src"], case["tgt"]) not in PAIRS:
            return False
        s = case["source"]
        src = case["src"]
        if src == "osu":
            return isinstance(s["lines"], list) and all(isinstance(l, str) for l in s["lines"])
        if src == "qua":
            return isinstance(s["doc"], dict) and isinstance(c06.render(s), str)
        if src == "sm":
            return isinstance(c02.render(s), str)
        if src == "bms":
            return s["layout"] in c04.LAYOUTS and all(isinstance(l, str) and l.encode("shift_jis") is not None for l in s["lines"])
        if src == "o2j":
            return len(c07.build(s)) >= 0
    except Exception:
        return False
    return False


# ------------------------------------------------------------------------------------------ the real pipeline

def src_wire(case):
    """(driver payload for c09.abs, what the real reader gets)"""
    s, src = case["source"], case["src"]
    if src == "osu":
        return dict(fmt="osu", lines=list(s["lines"])), list(s["lines"])
    if src == "qua":
        text = c06.render(s)
        return dict(fmt="qua", doc=c06.doc_wire(c06.parse(text))), text
    if src == "sm":
        text = c02.render(s)
        return dict(fmt="sm", text=text), text
    if src == "bms":
        return dict(fmt="bms", layout=s["layout"], lines=[l.encode("shift_jis").hex() for l in s["lines"]]), list(s["lines"])
    data = c07.build(s)
    return dict(fmt="o2j", b=list(data)), data


def read_real(src, payload, case, I):
    if src == "osu":
        return [I["OsuMap"].read(list(payload))], None
    if src == "qua":
        return [I["QuaMap"].read(payload)], None
    if src == "sm":
        ms = I["SMMapSet"].read(payload)
        return list(ms.maps), ms
    if src == "bms":
        return [I["BMSMap"].read(list(payload), getattr(I["BMSChannel"], case["source"]["layout"]))], None
    ms = I["O2JMapSet"].read(payload)
    return list(ms.maps), ms


def convert_real(src, tgt, maps, ms, shift, I):
    cv = I["cv"]
    name = dict(osu="Osu", qua="Qua", sm="SM", bms="BMS", o2j="O2J")
    conv = getattr(cv, f"{name[src]}To{name[tgt]}")
    arg = ms if src in ("sm", "o2j") else maps[0]
    kw = {}
    if tgt == "bms" and src != "sm":
        kw["move_right_by"] = shift
    out = conv.convert(arg, **kw)
    return out if isinstance(out, list) else [out]


def mem_abs(m):
    """abstract chart of an in-memory map (exact values of its doubles)"""
    hits = [[R(float(o)), int(c)] for o, c in zip(m.hits.offset.tolist(), m.hits.column.tolist())]
    holds = [[R(float(o)), int(c), R(float(l))] for o, c, l in zip(m.holds.offset.tolist(), m.holds.column.tolist(), m.holds.length.tolist())]
    bpms = [[R(float(o)), R(float(b))] for o, b in zip(m.bpms.offset.tolist(), m.bpms.bpm.tolist())]
    return dict(hits=hits, holds=holds, bpms=bpms)


def write_real(tgt, obj, layout, I):
    """-> (driver payload for c09.abs, text for the replay)"""
    if tgt == "osu":
        text = "\n".join(obj.write())
        return dict(fmt="osu", lines=text.split("\n")), text
    if tgt == "qua":
        text = obj.write()
        return dict(fmt="qua", doc=c06.doc_wire(c06.parse(text))), text
    if tgt == "sm":
        text = obj.write()
        return dict(fmt="sm", text=text), text
    b = obj.write(note_channel_config=getattr(I["BMSChannel"], layout))
    lines = b.split(b"\r\n")
    return dict(fmt="bms", layout=layout, lines=[l.hex() for l in lines]), b.decode("shift_jis", "replace")


SM_STR = ["title", "subtitle", "artist", "title_translit", "subtitle_translit", "artist_translit", "genre", "credit", "banner",
          "background", "lyrics_path", "cd_title", "music", "display_bpm", "bg_changes", "fg_changes"]


def hyp_sm_text_ok(sets):
    """C03's domain: header strings without ; : # // and surrounding whitespace"""
    clean = lambda x: isinstance(x, str) and x == x.strip() and not any(ch in x for ch in ";:#\\\n") and "//" not in x
    try:
        return all(clean(getattr(s, a)) for s in sets for a in SM_STR) and \
            all(clean(m.description) and clean(m.difficulty) for s in sets for m in s.maps)
    except Exception:
        return True


def maps_of(tgt, out):
    """the per-chart in-memory maps of a conversion result (SM: the set's charts)"""
    if tgt == "sm":
        return [m for sms in out for m in sms.maps]
    return list(out)


def measure_of(a, t):
    """4-beat measure index of time t counted from the first tempo point (exact)"""
    bp = sorted((F(p[0]), F(p[1])) for p in a["bpms"])
    if not bp or any(b <= 0 for _, b in bp):
        return 0
    beats = Fr(0)
    for i, (o, b) in enumerate(bp):
        nxt = bp[i + 1][0] if i + 1 < len(bp) else None
        hi = t if nxt is None or t < nxt else nxt
        if hi > o:
            beats += (hi - o) * b / 60000
        if nxt is None or t < nxt:
            break
    return beats / 4


def last_time(a):
    ts = [F(h[0]) for h in a["hits"]] + [F(h[0]) + F(h[2]) for h in a["holds"]] + [F(p[0]) for p in a["bpms"]]
    return max(ts) if ts else Fr(0)


def close(drv, res, exact, shift, a, b):
    strip = lambda x: dict(hits=x["hits"], holds=x["holds"], bpms=x["bpms"])
    return drv.call("c09.close", eps=EPS, res=res, exact=exact, shift=shift, a=strip(a), b=strip(b))["ok"]


def source_domain(case, A, payload):
    """Python-side parts of the parts' domains (everything else is in A['valid'])"""
    src = case["src"]
    why = []
    if src == "osu":
        if not c01.dialect_ok(case["source"]["lines"]) or not c01._text_ok(case["source"]["lines"]):
            why.append("osu text outside C01's dialect")
    if src == "sm":
        if c02.risky_comment(payload):
            why.append("risky comment (DSM2)")
        if not A["info"].get("stops_present"):
            why.append("no #STOPS")
    if src == "qua":
        if not A["info"].get("objs_declared"):
            why.append("Quaver objects with omitted / non-numeric keys")
    return why


def run(case, drv):
    _quiet()
    logging.disable(logging.CRITICAL)
    try:
        with warnings.catch_warnings():
            warnings.simplefilter("ignore")
            return _run(case, drv)
    finally:
        logging.disable(logging.NOTSET)


def _skip(claim, tags, why):
    return dict(claim=claim, ok=True, agree=True, dom=False, kf=None, tags=tags, nontrivial=False, detail={})


def _run(case, drv):
    I = _imports()
    src, tgt, claim = case["src"], case["tgt"], case["claim"]
    opts = case.get("opts") or {}
    shift = int(opts.get("shift", 0)) if tgt == "bms" and src != "sm" else 0
    layout = opts.get("layout", "BME")
    tags = [case.get("origin", "?")]
    wire, payload = src_wire(case)
    Ares = drv.call("c09.abs", **wire)
    if "ok" not in Ares:
        return _skip(claim, tags + ["src-no-denotation:" + str(Ares.get("err"))], None)
    A = Ares["ok"]
    # the validity flags of c09.abs are about *written* files; for a source they matter where they coincide with the part's
    # domain (osu dialect lines, StepMania chart structure, O2Jam level well-formedness)
    outside = (list(A["why"]) if src in ("osu", "sm", "o2j") else []) + source_domain(case, A, payload)
    if outside:
        return _skip(claim, tags + ["src-outside-part-domain"], outside)
    srcs = A["charts"]
    if not srcs:
        return _skip(claim, tags + ["no-chart"], None)
    info = A["info"]

    # ---- which charts can the target hold at all (key counts the target supports; the property's quantifier)
    def target_keys(i, a):
        k = a["facts"]["keys"]
        if src == "osu":
            declared = info["keys"]
        elif src == "qua":
            declared = {v: kk for kk, v in QUA_KEYS.items()}.get(info["mode"])
        elif src == "sm":
            declared = info["keys"][i]
        elif src == "o2j":
            declared = 7
        else:
            declared = k
        if tgt == "osu":
            return declared if src in ("qua", "sm", "o2j") else k if src == "bms" else declared
        if tgt == "qua":
            return declared if src in ("osu", "sm", "o2j") else k
        if tgt == "sm":
            return k
        return max(declared or 0, k or 0)
    unsupported = []
    for i, a in enumerate(srcs):
        k = target_keys(i, a)
        infer = tgt == "sm" or (src == "bms" and tgt in ("osu", "qua"))
        if a["facts"]["keys"] is None and infer:
            unsupported.append("a chart without notes (the converter infers the key count from the notes)")
        elif k is None or (tgt == "qua" and k not in QUA_KEYS) or (tgt == "sm" and k not in SM_KEYS) or \
                (tgt == "bms" and (k + shift > BMS_LANES[layout])) or (tgt == "osu" and not (1 <= k <= 18)) or \
                (tgt in ("osu", "qua") and (a["facts"]["keys"] or 0) > k):
            unsupported.append(f"key count {k} not supported by {tgt}")
        if src == "qua" and tgt != "sm" and info["mode"] not in QUA_KEYS.values():
            unsupported.append("Quaver mode unknown")
    if unsupported:
        return _skip(claim, tags + ["target-does-not-support-keys"], unsupported)

    # ---- harness limit: beat-based targets pad every empty measure; keep the written text small
    if tgt in ("sm", "bms") and any(a["facts"]["first_tempo"] is not None and a["facts"]["bpm_positive"] and
                                    measure_of(a, last_time(a)) > MAX_MEASURES for a in srcs):
        return _skip(claim, tags + ["longer-than-%d-measures" % MAX_MEASURES], None)

    # ---- the real pipeline
    stage = "read"
    err = None
    mem, conv_maps, written, conv_objs = [], [], [], []
    def pipeline():
        st = "read"
        mem_, conv_, written_, objs_ = [], [], [], []
        try:
            maps, ms = read_real(src, payload, case, I)
            mem_ = [mem_abs(m) for m in maps]
            st = "convert"
            out = convert_real(src, tgt, maps, ms, shift, I)
            objs_ = out
            conv_ = [mem_abs(m) for m in maps_of(tgt, out)]
            st = "write"
            written_ = [write_real(tgt, o, layout, I) for o in out]
            return None, mem_, conv_, written_, objs_
        except Exception as e:
            return f"{st}: {type(e).__name__}: {str(e)[:160]}", mem_, conv_, written_, objs_

    try:
        if tgt == "bms":
            # the BMS writer builds lines of lcm-many slots in single C calls (minutes for some tempo lists): run it in a
            # forked child that can be killed; a timeout is a harness limit, not a verdict
            got = in_child(lambda: pipeline()[:4], PIPELINE_LIMIT_S)
            if got is None:
                return _skip(claim, tags + ["pipeline-slower-than-%ds:not-judged" % PIPELINE_LIMIT_S], None)
            err, mem, conv_maps, written = got
        else:
            err, mem, conv_maps, written, conv_objs = pipeline()
        stage = "done"
    except OSError as e:
        err = f"harness: {type(e).__name__}: {str(e)[:160]}"

    # ---- predicates of the open findings and of the parts' hypotheses, on the source's denotation
    kf_pred = []
    hyp = []
    for i, a in enumerate(srcs):
        f = a["facts"]
        if f["cell_collision"]:
            hyp.append("two rows of one column at the same time")
        if f["neg_length"]:
            hyp.append("hold with negative length")
        if not f["bpm_positive"] or f["first_tempo"] is None:
            hyp.append("tempo list: non-positive tempo / empty")
        if tgt in ("sm", "bms"):
            if f["before_first_tempo"]:
                hyp.append("object before the first tempo point")
            if f["inside_hold"]:
                (kf_pred if tgt == "bms" else hyp).append("D37" if tgt == "bms" else "object inside a hold of its column")
        if tgt == "bms":
            if f["first_tempo"] is not None and F(f["first_tempo"]) != 0:
                kf_pred.append("D35")
            if not f["bpm_3dec"]:
                kf_pred.append("D06")
            if f["tempo_tie_unequal"]:
                kf_pred.append("D45")
    res = "ms" if tgt in ("osu", "qua") else ([[1, 96], [1, 192]] if tgt == "sm" else [[1, 192], [1, 192]])
    for a in srcs:
        cr = drv.call("c09.crowded", res=res, a=dict(hits=a["hits"], holds=a["holds"], bpms=a["bpms"]))["ok"]
        if cr["crowded"]:
            hyp.append("two cells of one column closer than the target's resolution")
        if cr["tempo_crowded"]:
            hyp.append("two tempo points closer than the target's resolution")
    if src == "bms":
        if info.get("d05"):
            kf_pred.append("D05")
        if not info.get("grid_compatible"):
            kf_pred.append("D22")
        if not info.get("resnap_stable"):
            hyp.append("tempo positions not stable under re-snapping")
    if src == "qua" and tgt == "osu" and info.get("sv_zero"):
        hyp.append("scroll velocity 0 (osu cannot express it)")
    if tgt == "sm" and not hyp_sm_text_ok(conv_objs):
        hyp.append("header text with ; : # // or surrounding blanks (outside C03's domain)")
    if src == "sm" and not info.get("tempo_on_grid"):
        hyp.append("a #BPMS beat off the 1/48 grid")
    if src == "sm" and len(srcs) > 1 and tgt == "sm":
        pass
    # StepMania and BMS readers re-seat a tempo change that is not on a measure line (C11): the in-memory tempo list then
    # stretches a measure instead of carrying the file's tempo values - by design.  Objects are still compared.
    objects_only = src in ("sm", "bms") and not all(a["facts"]["tempo_on_lines"] for a in srcs)
    if objects_only:
        hyp.append("tempo change off the measure lines (re-seated by the reader: tempo values not comparable)")
    dom = not kf_pred and not hyp

    why = []
    detail = {}
    ok = True
    agree = True
    n_obj = sum(a["facts"]["n"] for a in srcs)
    if err is not None and tgt == "bms" and err.startswith("convert: UnicodeEncodeError"):
        # the codecs are parameters of the converter model (C08): a text that shift_jis cannot encode is outside the domain
        return _skip(claim, tags + ["text-not-encodable-in-shift_jis"], None)
    if err is not None:
        ok = False
        why.append("pipeline raised at " + err)
    else:
        if len(written) != len(srcs) or len(mem) != len(srcs) or len(conv_maps) != len(srcs):
            ok = False
            why.append(f"{len(srcs)} source charts, {len(mem)} read, {len(conv_maps)} converted, {len(written)} written")
        else:
            for i, a in enumerate(srcs):
                # links the composition takes from the parts (resolution 0)
                l1 = close(drv, [[0, 1], [0, 1]], False, 0, a, mem[i])
                l2 = close(drv, [[0, 1], [0, 1]], False, shift, mem[i], conv_maps[i])
                if objects_only:
                    l1["close"] = l1["hits"] and l1["holds"]
                if not (l1["close"] and l2["close"]):
                    agree = False
                    detail.setdefault("links", []).append(dict(chart=i, reader_eq_denotation=l1["close"], converter_content=l2["close"],
                                                               reader=l1, conv=l2))
                if len(written[i][1]) > MAX_TEXT:
                    return _skip(claim, tags + ["written-text-too-large-for-the-harness"], None)
                T = drv.call("c09.abs", **written[i][0])
                if "ok" not in T:
                    if tgt == "bms" and T.get("time_sig"):
                        # channel-02 lines are outside Spec.BMS.denote: the library's own BMS reader is the referee here
                        # (objects only: it re-seats the tempo list).  No converter carries a metronome, so the unchanged
                        # tree never gets here.
                        tags.append("written-bms-has-time-signature-lines:judged-by-reading-back")
                        try:
                            raw = written[i][0]
                            back = I["BMSMap"].read([bytes.fromhex(h).decode("shift_jis", "replace") for h in raw["lines"]],
                                                    getattr(I["BMSChannel"], layout))
                            vb = close(drv, res, False, shift, a, mem_abs(back))
                            good = vb["hits"] and vb["holds"]
                        except Exception as e:
                            good = False
                            why.append(f"chart {i}: reading the written file back raised {type(e).__name__}")
                        if not good:
                            ok = False
                            why.append(f"chart {i}: the written BMS file has time-signature lines and, read back, its objects differ from the source's")
                            detail["written"] = written[i][1][:3000]
                        hyp.append("written BMS has channel-02 lines (outside Spec.BMS.denote)")
                        continue
                    ok = False
                    why.append(f"chart {i}: the written {tgt} file has no denotation ({T.get('err')})")
                    detail["written"] = written[i][1][:3000]
                    continue
                T = T["ok"]
                if len(T["charts"]) != 1:
                    ok = False
                    why.append(f"chart {i}: the written file holds {len(T['charts'])} charts")
                    continue
                b = T["charts"][0]
                if not T["valid"]:
                    ok = False
                    why.append(f"chart {i}: written file not valid: {T['why']}")
                if tgt == "osu" and T["info"]["keys"] != target_keys(i, a):
                    ok = False
                    why.append(f"chart {i}: CircleSize {T['info']['keys']} written for a {target_keys(i, a)}-key chart")
                if tgt == "qua" and T["info"]["mode"] != QUA_KEYS.get(target_keys(i, a)):
                    ok = False
                    why.append(f"chart {i}: Mode {T['info']['mode']} written for a {target_keys(i, a)}-key chart")
                if tgt == "sm" and T["info"]["keys"][0] != target_keys(i, a):
                    ok = False
                    why.append(f"chart {i}: chart type {T['info']['chart_types'][0]} written for a {target_keys(i, a)}-key chart")
                exact = bool(a["facts"]["grid_exact"]) and tgt in ("sm", "bms")
                v = close(drv, res, exact, shift, a, b)
                if objects_only:
                    v["close"] = v["hits"] and v["holds"]
                    tags.append("objects-only")
                if not v["close"]:
                    ok = False
                    why.append(f"chart {i}: timeline differs (hits {v['hits']}, holds {v['holds']}, tempo {v['bpms']}; "
                               f"{'exact regime' if exact else 'resolution ' + str(res)})")
                    detail.setdefault("diff", []).append(dict(chart=i, src=dict(hits=a["hits"][:8], holds=a["holds"][:8], bpms=v["norm_a"][:8]),
                                                              tgt=dict(hits=b["hits"][:8], holds=b["holds"][:8], bpms=v["norm_b"][:8])))
                    detail["written"] = written[i][1][:3000]
                if exact:
                    tags.append("exact")
    dom = not kf_pred and not hyp
    kf = None
    if not ok and kf_pred:
        kf = kf_pred[0]
    if not dom or kf:
        agree = True if not dom else agree
    if not ok or not agree:
        detail["why"] = why
        detail["kf_predicates"] = kf_pred
        detail["hypotheses_failed"] = hyp
    tags.append(f"n{min(3, n_obj)}")
    tags += sorted(set(kf_pred))
    if hyp:
        tags.append("outside-hypotheses")
    if not ok and not kf and [h for h in hyp if not h.startswith(("tempo change off", "written BMS has channel-02"))]:
        # outside the writers' domains (C03 / C05 / the property's own quantifier): nothing is demanded
        return dict(claim=claim, ok=True, agree=True, dom=False, kf=None, tags=tags + ["not-judged"], nontrivial=False, detail={})
    nontrivial = n_obj >= 3 and (any(a["holds"] for a in srcs) or any(a["facts"]["n_bpms"] >= 2 for a in srcs))
    return dict(claim=claim, ok=ok, agree=agree, dom=bool(dom), kf=kf, tags=tags, nontrivial=bool(nontrivial),
                detail=detail)
