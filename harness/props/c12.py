"""C12 — stacking writes through: editing the stack equals editing each list.

Correspondence: histories of `Map.stack(include_types)`, `stack.<prop> (op)= v`, `stack[col] (op)= v`,
`stack.loc[mask, cols] (op)= v` (several live stackers allowed) on charts of all five games and the base classes,
and `MapSet.stack()` / `stack.<prop> (op)= v` / `stack[col] = DataFrame` on mapsets, run on the real classes and on
Model/Stack.lean; every list (columns, labels, cells, class) is compared after every call, exception classes too.
Specification: Spec/Stack.lean (`specStep`: the same assignment applied to every covered list separately, nothing
else changes; labels are not part of it) evaluated by the driver on the implementation's lists after every call.
All numbers are drawn from the exact stream (dyadic, bounded mantissa growth), so cells are compared for equality.
"""
import json
import math
import operator
from fractions import Fraction as Fr

from lib.rat import R, F

ID = "C12"
QUICK_N = 700
THOROUGH_N = 25000
QUICK_BUDGET_S = 80
THOROUGH_BUDGET_S = 900
RULE = ("charts of base/osu/quaver/sm/bms/o2jam with 0-6 rows per list (empty lists, all-empty charts, gapped / permuted / "
        "duplicate / negative row labels, lists built from items, by filtering, or via `empty(n)`), histories of 1-8 calls: "
        "stack(include_types), property and item assignment (scalar, array, op=), loc assignment with explicit or "
        "condition-derived masks on one or several columns (existing, foreign, new), calls that raise, 1-3 live stackers "
        "(fresh or stale), stacks restricted to exactly one list; mapsets of 0-4 charts with frame assignment and op=; "
        "bystanders in 3 of 4 cases: a second chart whose lists were assigned from the edited chart (shared frames), "
        "free-standing lists on the same frames, mapset charts sharing lists — required unchanged after every call. "
        "distinct = canonical JSON; non-trivial = at least one successful call changed a cell of a list")
ASSUMPTIONS = [
    "exact stream: all numbers dyadic with bounded exponent range, so every double operation of the history is exact and cells are compared for equality",
    "an exception raised by a call is observable; the specification says such a call changes nothing (checked)",
    "bystanders (lists outside the edited chart that share a DataFrame with one of its lists) are unchanged in the model by value semantics; the absence of aliasing in the implementation is observed (snapshot after every call), not proved",
    "boolean masks are inputs of the property: condition-derived masks are computed with the real stack getter and handed to model and spec as explicit masks",
]
TRUSTED_EXTRA = ["pandas concat/reset_index/loc/iloc/label alignment are modelled as list operations (Model/Stack.lean), tied by this correspondence only"]

GAMES = ["base", "osu", "qua", "sm", "bms", "o2j"]
E_BPMS = [60, 75, 100, 120, 125, 128, 150, 160, 200, 240, 37.5, 62.5, 187.5]
MUL_CONSTS = [Fr(2), Fr(-1), Fr(1, 2), Fr(3), Fr(3, 2), Fr(4), Fr(1, 4), Fr(1), Fr(0)]
DIV_CONSTS = [Fr(2), Fr(-2), Fr(1, 2), Fr(4), Fr(1), Fr(-1), Fr(8)]
MAX_SPAN = 50


# ------------------------------------------------------------------------------------------ registry

_REG = {}
_ALLTYPES = {}


def reg():
    if _REG:
        return _REG
    from reamber.base.Map import Map
    from reamber.base.MapSet import MapSet
    from reamber.osu.OsuMap import OsuMap
    from reamber.quaver.QuaMap import QuaMap
    from reamber.sm.SMMap import SMMap
    from reamber.sm.SMMapSet import SMMapSet
    from reamber.bms.BMSMap import BMSMap
    from reamber.o2jam.O2JMap import O2JMap
    from reamber.o2jam.O2JMapSet import O2JMapSet
    maps = dict(base=(Map, MapSet), osu=(OsuMap, MapSet), qua=(QuaMap, MapSet), sm=(SMMap, SMMapSet),
                bms=(BMSMap, MapSet), o2j=(O2JMap, O2JMapSet))
    for g, (M, S) in maps.items():
        m = M()
        lists = {}
        types = {}
        for key, v in m.objs.items():
            cls = type(v)
            item = cls._item_class()
            lists[key] = dict(cls=cls, item=item, props={k: (str(t), d) for k, (t, d) in item._props.items()},
                              default_cols=[str(c) for c in v.df.columns])
            for c in cls.__mro__:
                if c.__name__ not in ("Generic", "ABC", "object"):
                    types[c.__name__] = c
        _ALLTYPES.update(types)
        _REG[g] = dict(map=M, set=S, lists=lists, types=_ALLTYPES,
                       props=sorted(k for k in dir(M.Stacker) if k != "loc" and isinstance(getattr(M.Stacker, k, None), property)))
    return _REG


# static copy of the schema, used by the generators (kept in sync with the source by `_schema_check`)
SCHEMA = {
    "base": {"hits": ["offset", "column"], "holds": ["offset", "column", "length"], "bpms": ["offset", "bpm", "metronome"]},
    "osu": {"svs": ["offset", "multiplier", "sample_set", "sample_set_index", "volume", "kiai"],
            "hits": ["offset", "column", "hitsound_set", "sample_set", "addition_set", "custom_set", "volume", "hitsound_file"],
            "holds": ["offset", "column", "length", "hitsound_set", "sample_set", "addition_set", "custom_set", "volume", "hitsound_file"],
            "bpms": ["offset", "bpm", "metronome", "sample_set", "sample_set_index", "volume", "kiai"]},
    "qua": {"svs": ["offset", "multiplier"], "hits": ["offset", "column", "keysounds"],
            "holds": ["offset", "column", "length", "keysounds"], "bpms": ["offset", "bpm", "metronome"]},
    "sm": {"fakes": ["offset", "column"], "lifts": ["offset", "column"], "keysounds": ["offset", "column"],
           "mines": ["offset", "column"], "rolls": ["offset", "column", "length"], "stops": ["offset", "length"],
           "hits": ["offset", "column"], "holds": ["offset", "column", "length"], "bpms": ["offset", "bpm", "metronome"]},
    "bms": {"hits": ["offset", "column", "sample"], "holds": ["offset", "column", "length", "sample"],
            "bpms": ["offset", "bpm", "metronome"]},
    "o2j": {"hits": ["offset", "column", "volume", "pan"], "holds": ["offset", "column", "length", "volume", "pan"],
            "bpms": ["offset", "bpm", "metronome"]},
}
TYPE_NAMES = {
    "base": ["HitList", "HoldList", "BpmList", "NoteList", "TimedList"],
    "osu": ["OsuHitList", "HoldList", "BpmList", "NoteList", "OsuSvList", "OsuNoteList", "TimedList", "HitList"],
    "qua": ["QuaHitList", "HoldList", "BpmList", "NoteList", "QuaSvList", "QuaTimedList", "HitList"],
    "sm": ["HitList", "HoldList", "BpmList", "NoteList", "SMStopList", "SMMineList", "SMRollList", "SMNoteList"],
    "bms": ["HitList", "HoldList", "BpmList", "NoteList", "BMSNoteList", "BMSHoldList"],
    "o2j": ["HitList", "HoldList", "BpmList", "NoteList", "O2JNoteList", "O2JBpmList"],
}
STACK_PROPS = {
    "base": ["offset", "column", "length", "bpm", "metronome"],
    "osu": ["offset", "column", "length", "bpm", "metronome", "hitsound_set", "sample_set", "sample_set_index", "addition_set",
            "custom_set", "volume", "hitsound_file", "kiai"],
    "qua": ["offset", "column", "length", "bpm", "metronome", "keysounds"],
    "sm": ["offset", "column", "length", "bpm", "metronome"],
    "bms": ["offset", "column", "length", "bpm", "metronome", "sample"],
    "o2j": ["offset", "column", "length", "bpm", "metronome"],
}
STR_COLS = {"hitsound_file", "keysounds", "sample"}
BOOL_COLS = {"kiai"}
FOREIGN = ["multiplier", "pan", "zz", "yy", "volume"]


def numeric_col(c):
    return c not in STR_COLS and c not in BOOL_COLS


# ------------------------------------------------------------------------------------------ generators

def dy(rng, hi=4000, fb=2):
    """a dyadic with ≤ fb fractional bits, |x| ≤ hi"""
    k = rng.choice([0, 0, 1, fb])
    return Fr(rng.randint(-hi // 8 * (2 ** k), hi * (2 ** k)), 2 ** k)


def gen_cell(rng, col):
    if col == "offset":
        return R(dy(rng, 4000, 2))
    if col == "column":
        return R(rng.randint(0, 9))
    if col == "length":
        return R(Fr(rng.randint(0, 2000), rng.choice([1, 1, 2, 4])))
    if col == "bpm":
        return R(Fr(rng.choice(E_BPMS)))
    if col == "metronome":
        return R(rng.randint(1, 8))
    if col == "multiplier":
        return R(Fr(rng.randint(-8, 40), 4))
    if col == "kiai":
        return rng.random() < 0.5
    if col == "hitsound_file":
        return rng.choice(["", "", "a.wav", "hit.ogg"])
    if col == "keysounds":
        return rng.choice(["list:[]", "list:[]", "list:[\"k1\"]"])
    if col == "sample":
        return rng.choice(["b:", "b:0A", "b:ZZ"])
    if col == "pan":
        return R(rng.randint(0, 15))
    return R(rng.randint(0, 100))       # the int-typed sound fields


def gen_list(rng, game, key, empty_p):
    cols = SCHEMA[game][key]
    r = rng.random()
    n = 0 if r < empty_p else rng.choice([1, 1, 2, 2, 3, 4, 6])
    rows = [[gen_cell(rng, c) for c in cols] for _ in range(n)]
    d = dict(rows=rows)
    r = rng.random()
    if n and r < 0.25:
        # gapped labels through a real filter: extra rows that are filtered away again
        extra = rng.randint(1, 3)
        keep = [True] * n + [False] * extra
        rng.shuffle(keep)
        it = iter(rows)
        full = [next(it) if k else [gen_cell(rng, c) for c in cols] for k in keep]
        d = dict(rows=full, keep=keep)
    elif n and r < 0.55:
        kind = rng.choice(["perm", "gap", "dup", "neg", "big"])
        if kind == "perm":
            lab = list(range(n)); rng.shuffle(lab)
        elif kind == "gap":
            lab = sorted(rng.sample(range(0, 3 * n + 3), n))
        elif kind == "dup":
            lab = [rng.randint(0, 2) for _ in range(n)]
        elif kind == "neg":
            lab = [rng.randint(-5, 5) for _ in range(n)]
        else:
            lab = [rng.randint(10 ** 6, 10 ** 6 + 50) for _ in range(n)]
        d["labels"] = lab
    elif r < 0.65:
        d["via"] = "empty"          # built by ListClass.empty(n) and column assignment (what the converters do)
    return d


def gen_map(rng, game):
    empty_p = rng.choice([0.0, 0.2, 0.2, 0.5, 1.0]) if rng.random() < 0.8 else 0.3
    return {key: gen_list(rng, game, key, empty_p) for key in SCHEMA[game]}


def span_after(span, kind, c):
    """(hi, lo) exponent bounds of every numeric cell after `x (kind)= c` — conservative"""
    hi, lo = span
    c = Fr(c)
    if c == 0:
        return (hi, lo) if kind in ("add", "sub") else span
    e = math.ceil(math.log2(abs(c))) if abs(c) >= 1 else -math.floor(math.log2(1 / abs(c)))
    fb = 0
    d = c.denominator
    while d > 1:
        d //= 2; fb += 1
    nb = c.numerator.bit_length()
    if kind in ("add", "sub", "set"):
        return (max(hi, e + 1) + 1, min(lo, -fb))
    if kind == "mul":
        return (hi + max(e, 0) + 1, lo - fb)
    # div by ±2^k or its reciprocal only
    k = abs(c)
    if k.numerator == 1 or k.denominator == 1:
        if k >= 1:
            return (hi, lo - (k.numerator.bit_length() - 1))
        return (hi + (k.denominator.bit_length() - 1), lo)
    return (hi + nb, lo - 60)


def gen_fn(rng, span):
    for _ in range(20):
        kind = rng.choice(["add", "sub", "mul", "mul", "div"])
        if kind in ("add", "sub"):
            c = dy(rng, 2000, 3)
        elif kind == "mul":
            c = rng.choice(MUL_CONSTS)
        else:
            c = rng.choice(DIV_CONSTS)
        s2 = span_after(span, kind, c)
        if s2[0] - s2[1] <= MAX_SPAN:
            return [kind, R(c)], s2
    return ["add", R(0)], span


def gen_scalar(rng, col, span):
    if col in BOOL_COLS:
        return rng.random() < 0.5, span
    if col == "hitsound_file":
        return rng.choice(["x.wav", "", "s"]), span
    if col in STR_COLS:
        return rng.choice(["ks", "b:01"]) if col != "sample" else "b:01", span
    if rng.random() < 0.1:
        return None, span
    c = dy(rng, 3000, 2)
    return R(c), span_after(span, "set", c)


def stacker_cols(game, incl):
    keys = member_keys(game, incl)
    cols = []
    for k in keys:
        for c in SCHEMA[game][k]:
            if c not in cols:
                cols.append(c)
    return cols


_MRO_CACHE = {}


def member_keys(game, incl):
    if incl is None:
        return list(SCHEMA[game])
    r = reg()[game]
    out = []
    for key, info in r["lists"].items():
        names = {c.__name__ for c in info["cls"].__mro__}
        if any(t in names for t in incl):
            out.append(key)
    return out


def total_rows(m, keys):
    n = 0
    for k in keys:
        d = m[k]
        n += sum(d["keep"]) if "keep" in d else len(d["rows"])
    return n


def static_stackers(game, m, ops):
    """for every successful stack() of the history: member keys, number of rows, columns (from the case alone)"""
    out = []
    for op in ops:
        if op["k"] == "stack":
            keys = member_keys(game, op.get("incl"))
            if keys:
                out.append(dict(keys=keys, n=total_rows(m, keys), cols=stacker_cols(game, op.get("incl"))))
    return out


def loc_rules_ok(game, m, ops):
    """what is still not generated around `loc` calls: on a stack WITHOUT rows, `loc[mask, [cols…]] = v` with a list of
    columns that names a new column (pandas then creates a column of the placeholder dtype V0 even when the call
    succeeds, and that meets the empty-frame enlargement quirk; no list has rows there, so no list can be affected).
    On stacks with rows the failing call (wrong mask length) and its side effect on the private copy (new columns of
    dtype V0) are generated and modelled (`errEffect`)."""
    sts = static_stackers(game, m, ops)
    for op in ops:
        if op["k"] in ("loc_set", "loc_map") and op["sid"] < len(sts):
            st = sts[op["sid"]]
            foreign = any(c not in st["cols"] for c in op["cols"])
            bad_len = "bits" in op["mask"] and len(op["mask"]["bits"]) != st["n"]
            if foreign and st["n"] == 0 and not op.get("single") and op["k"] == "loc_set":
                return False
            if "cond" in op["mask"] and op["mask"]["cond"][0] not in st["cols"]:
                return False
    return True


def gen_mask(rng, n, cols):
    r = rng.random()
    numeric = [c for c in cols if numeric_col(c)]
    if r < 0.45 and numeric:
        col = rng.choice(numeric)
        cmp_ = rng.choice(["gt", "ge", "lt", "le", "eq", "ne"])
        thr = {"offset": dy(rng, 3000, 1), "column": Fr(rng.randint(0, 9)), "length": Fr(rng.randint(0, 1500)),
               "bpm": Fr(rng.choice(E_BPMS)), "metronome": Fr(rng.randint(1, 8))}.get(col, Fr(rng.randint(0, 60)))
        return dict(cond=[col, cmp_, R(thr)])
    if r < 0.55:
        return dict(bits=[True] * n)
    if r < 0.62:
        return dict(bits=[False] * n)
    return dict(bits=[rng.random() < 0.5 for _ in range(n)], as_=rng.choice(["array", "list", "series"]))


def gen_ops_map(rng, game, m):
    ops = []
    stackers = []       # (incl, keys, n, cols)
    span = (13, -3)
    n_ops = rng.choice([1, 2, 3, 3, 4, 5, 6, 8])
    multi = rng.random() < 0.3          # several live stackers, used in any order (may be stale)
    for i in range(n_ops + 1):
        need_stack = not stackers or (rng.random() < (0.3 if multi else 0.15))
        if need_stack and i < n_ops + 1:
            incl = None
            if rng.random() < 0.45:
                incl = rng.sample(TYPE_NAMES[game], rng.choice([1, 1, 2]))
                if rng.random() < 0.45:
                    # a stack that covers exactly ONE list (pd.concat of a single frame): its exact class
                    incl = [reg()[game]["lists"][rng.choice(list(SCHEMA[game]))]["cls"].__name__]
                if rng.random() < 0.04:
                    incl = ["SMStopList"] if game != "sm" else ["OsuSvList"]       # matches nothing: stack() raises
            keys = member_keys(game, incl)
            ops.append(dict(k="stack", incl=incl))
            if keys:
                stackers.append(dict(incl=incl, keys=keys, n=total_rows(m, keys), cols=stacker_cols(game, incl), sid=len(stackers)))
            if not stackers:
                continue
            if len(ops) > n_ops:
                break
            continue
        st = rng.choice(stackers) if multi else stackers[-1]
        sid, n, cols = st["sid"], st["n"], st["cols"]
        props = STACK_PROPS[game]
        r = rng.random()
        pick_pool = [c for c in cols if numeric_col(c)]
        if r < 0.30:
            # property / item arithmetic
            name = rng.choice([p for p in props if p in cols and numeric_col(p)] or ["offset"])
            if rng.random() < 0.08:
                name = rng.choice([p for p in props if p not in cols] or FOREIGN)       # KeyError / AttributeError paths
            if rng.random() < 0.04 and "hitsound_file" in cols:
                name = "hitsound_file"      # TypeError path
                f = ["add", R(1)]
            else:
                f, span = gen_fn(rng, span)
            if rng.random() < 0.7:
                ops.append(dict(k="attr_map", sid=sid, name=name, f=f))
            else:
                ops.append(dict(k="map", sid=sid, col=rng.choice(pick_pool or ["offset"]) if rng.random() < 0.8 else name, f=f))
        elif r < 0.45:
            col = rng.choice(cols + FOREIGN[:3]) if rng.random() < 0.8 else rng.choice(props)
            if rng.random() < 0.5:
                s, span = gen_scalar(rng, col, span)
                v = dict(s=s)
            else:
                ln = n if rng.random() < 0.9 else n + rng.choice([-1, 1, 2])
                vals = []
                for _ in range(max(ln, 0)):
                    s, span = gen_scalar(rng, col if numeric_col(col) else "offset", span)
                    vals.append(s)
                v = dict(a=vals)
            if rng.random() < 0.5:
                ops.append(dict(k="attr_set", sid=sid, name=col, v=v))
            else:
                ops.append(dict(k="set", sid=sid, col=col, v=v))
        else:
            mask = gen_mask(rng, n, cols)
            if "bits" in mask and rng.random() < 0.07:
                mask["bits"] = mask["bits"] + [True]          # IndexError path
            k = rng.choice([1, 1, 1, 2, 2, 3])
            pool = pick_pool if rng.random() < 0.85 else cols
            sel = rng.sample(pool, min(k, len(pool))) if pool else ["offset"]
            if rng.random() < 0.10:
                sel = sel + [rng.choice([c for c in FOREIGN if c not in sel])]
            single = len(sel) == 1 and rng.random() < 0.6
            if rng.random() < 0.55:
                if all(numeric_col(c) for c in sel):
                    f, span = gen_fn(rng, span)
                else:
                    f = ["add", R(1)]
                ops.append(dict(k="loc_map", sid=sid, mask=mask, cols=sel, single=single, f=f))
            else:
                s, span = gen_scalar(rng, sel[0] if all(c == sel[0] or numeric_col(c) == numeric_col(sel[0]) for c in sel) else "offset", span)
                ops.append(dict(k="loc_set", sid=sid, mask=mask, cols=sel, single=single, v=s))
        last = ops[-1]
        if last["k"] in ("loc_set", "loc_map") and rng.random() < 0.5:
            fc = [c for c in last["cols"] if c not in cols]
            if fc:      # follow a call that named a foreign column with a use of that column
                r2 = rng.random()
                if r2 < 0.4:
                    ops.append(dict(k="map", sid=sid, col=fc[0], f=["add", R(1)]))
                elif r2 < 0.7:
                    ops.append(dict(k="loc_set", sid=sid, mask=dict(bits=[rng.random() < 0.5 for _ in range(n)]), cols=[fc[0]],
                                    single=rng.random() < 0.5, v=R(2)))
                    ops.append(dict(k="map", sid=sid, col=fc[0], f=["add", R(1)]))
                else:
                    ops.append(dict(k="loc_map", sid=sid, mask=dict(bits=[False] * n), cols=[fc[0]], single=False, f=["add", R(1)]))
        if len(ops) > n_ops + 4:
            break
    return ops


def gen(rng, tier, i):
    for _ in range(30):
        case = gen_raw(rng, tier, i)
        if valid(case):
            return case
    return corpus()[0]


def gen_raw(rng, tier, i):
    game = rng.choice(GAMES)
    if rng.random() < 0.22:
        n_maps = rng.choice([0, 1, 2, 2, 3, 4])
        maps = [gen_map(rng, game) for _ in range(n_maps)]
        return dict(claim="mapset", game=game, maps=maps, ops=gen_ops_set(rng, game, maps), by=gen_by(rng, game, len(maps)))
    m = gen_map(rng, game)
    return dict(claim="map", game=game, maps=[m], ops=gen_ops_map(rng, game, m), by=gen_by(rng, game, 1))


def gen_by(rng, game, n_maps):
    """bystanders: lists that share their DataFrame with a list of the edited chart without being stacked —
    `chart`: a second chart whose lists were ASSIGNED from chart 0 (`hard.bpms = easy.bpms`: the map setter stores
    `val.df`, no copy); `free`: free-standing lists `ListClass(m.<key>)` (same frame); `inner` (mapsets): chart 1 of the
    mapset is given chart 0's lists (two difficulties with the same timing points)"""
    keys = list(SCHEMA[game])
    by = {}
    if n_maps == 0 or rng.random() < 0.25:
        return by
    by["chart"] = keys if rng.random() < 0.5 else rng.sample(keys, rng.randint(1, len(keys)))
    if rng.random() < 0.6:
        by["free"] = rng.sample(keys, rng.randint(1, min(3, len(keys))))
    if n_maps >= 2 and rng.random() < 0.3:
        by["inner"] = rng.sample(keys, rng.randint(1, len(keys)))
    return by


def gen_ops_set(rng, game, maps):
    ops = [dict(k="stack")]
    span = (13, -3)
    n_st = 1
    base = STACK_PROPS["base"]
    ns = [total_rows(m, list(SCHEMA[game])) for m in maps]
    for _ in range(rng.choice([1, 2, 3, 4, 6])):
        r = rng.random()
        ms = rng.randrange(n_st) if rng.random() < 0.3 else n_st - 1
        if r < 0.12:
            ops.append(dict(k="stack")); n_st += 1
        elif r < 0.6:
            name = rng.choice(base)
            if rng.random() < 0.06:
                name = rng.choice(["volume", "zz", "multiplier"])
            f, span = gen_fn(rng, span)
            ops.append(dict(k="attr_map" if rng.random() < 0.75 else "map", ms=ms, name=name, col=name, f=f))
        else:
            name = rng.choice(base + ["zz"])
            nrows = len(maps) + rng.choice([0, 0, 0, -1, 1])
            rows = []
            for k in range(max(nrows, 0)):
                ln = (ns[k] if k < len(ns) else 2) + rng.choice([0, 0, 0, -1, 1, 2])
                row = []
                for _ in range(max(ln, 0)):
                    s, span = gen_scalar(rng, "offset", span)
                    row.append(s)
                rows.append(row)
            ops.append(dict(k="attr_set" if rng.random() < 0.6 else "set", ms=ms, name=name, col=name, rows=rows))
    return ops


def corpus():
    c = []
    o = lambda x: R(x)
    hits3 = dict(rows=[[o(1000), o(1)], [o(2000), o(2)], [o(3000), o(3)]])
    # the docstring examples of Map.Stacker
    c.append(dict(claim="map", game="base", maps=[dict(hits=hits3, holds=dict(rows=[]), bpms=dict(rows=[]))],
                  ops=[dict(k="stack", incl=None), dict(k="attr_map", sid=0, name="offset", f=["mul", o(2)]),
                       dict(k="stack", incl=None), dict(k="attr_map", sid=1, name="offset", f=["mul", o(2)]),
                       dict(k="loc_map", sid=1, mask=dict(cond=["offset", "gt", o(4000)]), cols=["column"], single=True, f=["add", o(1)]),
                       dict(k="loc_map", sid=1, mask=dict(cond=["column", "eq", o(1)]), cols=["offset"], single=False, f=["mul", o(2)])]))
    # D25: a second live stacker; the first one is stale when it is used again
    c.append(dict(claim="map", game="base", _expect="D25",
                  maps=[dict(hits=hits3, holds=dict(rows=[]), bpms=dict(rows=[[o(0), o(120), o(4)]]))],
                  ops=[dict(k="stack", incl=None), dict(k="stack", incl=None),
                       dict(k="attr_map", sid=1, name="offset", f=["add", o(1)]),
                       dict(k="attr_map", sid=0, name="column", f=["add", o(1)])]))
    # all lists empty, every game
    for g in GAMES:
        c.append(dict(claim="map", game=g, maps=[{k: dict(rows=[]) for k in SCHEMA[g]}],
                      ops=[dict(k="stack", incl=None), dict(k="attr_map", sid=0, name="offset", f=["mul", o(2)]),
                           dict(k="loc_set", sid=0, mask=dict(cond=["offset", "gt", o(3)]), cols=["column"], single=True, v=o(2)),
                           dict(k="attr_set", sid=0, name="bpm", v=dict(s=o(100)))]))
    # lists built by `empty(n)` (D09: the leaked `index` column made stack() raise)
    c.append(dict(claim="map", game="osu",
                  maps=[dict(svs=dict(rows=[]), hits=dict(rows=[[o(10), o(1), o(0), o(0), o(0), o(0), o(0), ""], [o(20), o(2), o(0), o(0), o(0), o(0), o(30), "a.wav"]], via="empty"),
                             holds=dict(rows=[]), bpms=dict(rows=[[o(0), o(120), o(4), o(0), o(0), o(50), False]], via="empty"))],
                  ops=[dict(k="stack", incl=None), dict(k="attr_map", sid=0, name="offset", f=["div", o(2)]),
                       dict(k="attr_map", sid=0, name="bpm", f=["mul", o(2)])]))
    # gapped labels after a filter, include_types, foreign column, rate-like history
    c.append(dict(claim="map", game="sm",
                  maps=[dict(fakes=dict(rows=[]), lifts=dict(rows=[[o(5), o(0)]]), keysounds=dict(rows=[]), mines=dict(rows=[[o(7), o(3)]], labels=[9]),
                             rolls=dict(rows=[[o(100), o(1), o(50)]]), stops=dict(rows=[[o(40), o(10)]]),
                             hits=dict(rows=[[o(0), o(0)], [o(1), o(1)], [o(2), o(2)], [o(3), o(3)]], keep=[True, False, True, True]),
                             holds=dict(rows=[[o(8), o(2), o(16)]], labels=[-4]), bpms=dict(rows=[[o(0), o(120), o(4)], [o(500), o(240), o(3)]], labels=[1, 0]))],
                  ops=[dict(k="stack", incl=["HoldList", "BpmList"]), dict(k="attr_map", sid=0, name="offset", f=["div", o(2)]),
                       dict(k="attr_map", sid=0, name="length", f=["div", o(2)]), dict(k="attr_map", sid=0, name="bpm", f=["mul", o(2)]),
                       dict(k="stack", incl=None), dict(k="set", sid=1, col="zz", v=dict(s=o(1))),
                       dict(k="loc_set", sid=1, mask=dict(cond=["column", "ge", o(1)]), cols=["offset", "column"], single=False, v=o(9)),
                       dict(k="attr_set", sid=1, name="volume", v=dict(s=o(3))),
                       dict(k="attr_map", sid=1, name="volume", f=["add", o(3)])]))
    # a failing loc assignment (wrong mask length) that leaves new columns behind on the private copy, and what
    # follows on those columns; the single-name form leaves nothing behind
    c.append(dict(claim="map", game="base", maps=[dict(hits=hits3, holds=dict(rows=[]), bpms=dict(rows=[[o(0), o(120), o(4)]]))],
                  ops=[dict(k="stack", incl=None),
                       dict(k="loc_set", sid=0, mask=dict(bits=[True, False]), cols=["yy"], single=True, v=o(1)),
                       dict(k="map", sid=0, col="yy", f=["add", o(1)]),
                       dict(k="loc_set", sid=0, mask=dict(bits=[True, False]), cols=["offset", "zz"], single=False, v=o(1)),
                       dict(k="map", sid=0, col="zz", f=["add", o(1)]),
                       dict(k="loc_map", sid=0, mask=dict(bits=[False, False, False, False]), cols=["zz"], single=False, f=["add", o(1)]),
                       dict(k="loc_set", sid=0, mask=dict(bits=[True, False, False, True]), cols=["zz"], single=True, v=o(5)),
                       dict(k="map", sid=0, col="zz", f=["add", o(1)]),
                       dict(k="attr_map", sid=0, name="offset", f=["mul", o(2)])]))
    # bystanders: a second chart that was given this chart's lists, free-standing lists on the same frames; stacks that
    # cover exactly one list, in-place arithmetic and loc assignments
    for g in GAMES:
        keys = list(SCHEMA[g])
        m = {k: dict(rows=[]) for k in keys}
        m["hits"] = dict(rows=[[o(250 * i), o(i % 4)] + [gen_cell(__import__("random").Random(i), c) for c in SCHEMA[g]["hits"][2:]] for i in range(5)])
        m["bpms"] = dict(rows=[[o(0), o(120), o(4)] + [gen_cell(__import__("random").Random(7), c) for c in SCHEMA[g]["bpms"][3:]],
                               [o(500), o(90), o(4)] + [gen_cell(__import__("random").Random(8), c) for c in SCHEMA[g]["bpms"][3:]]])
        hcls = {"base": "HitList", "osu": "OsuHitList", "qua": "QuaHitList", "sm": "SMHitList", "bms": "BMSHitList", "o2j": "O2JHitList"}[g]
        c.append(dict(claim="map", game=g, maps=[m], by=dict(chart=keys, free=["bpms", "hits"]),
                      ops=[dict(k="stack", incl=["BpmList"]), dict(k="attr_map", sid=0, name="offset", f=["add", o(10)]),
                           dict(k="loc_map", sid=0, mask=dict(cond=["bpm", "gt", o(100)]), cols=["bpm"], single=True, f=["mul", o(2)]),
                           dict(k="stack", incl=[hcls]), dict(k="attr_map", sid=1, name="column", f=["add", o(1)]),
                           dict(k="loc_set", sid=1, mask=dict(cond=["offset", "gt", o(600)]), cols=["offset"], single=True, v=o(123)),
                           dict(k="stack", incl=None), dict(k="attr_map", sid=2, name="offset", f=["mul", o(2)])]))
    # mapset: charts of unequal length, an empty chart, a frame with fewer rows than charts
    mk = lambda n: dict(hits=dict(rows=[[o(1000 * (i + 1)), o(i)] for i in range(n)]), holds=dict(rows=[]), bpms=dict(rows=[[o(0), o(120), o(4)]] if n else []))
    c.append(dict(claim="mapset", game="base", maps=[mk(2), mk(3), mk(0), mk(1)],
                  ops=[dict(k="stack"), dict(k="attr_map", ms=0, name="offset", col="offset", f=["mul", o(2)]),
                       dict(k="attr_map", ms=0, name="column", col="column", f=["add", o(1)]),
                       dict(k="attr_set", ms=0, name="offset", col="offset", rows=[[o(1), o(2)], [o(3), o(4)]])]))
    return c


# ------------------------------------------------------------------------------------------ validity (shrinker domain)

def _numbers_of(case):
    for op in case["ops"]:
        if "f" in op:
            yield op["f"][0], F(op["f"][1])
        v = op.get("v")
        if isinstance(v, dict):
            for s in ([v["s"]] if "s" in v else v.get("a", [])):
                if isinstance(s, list):
                    yield "set", F(s)
        elif isinstance(v, list):
            yield "set", F(v)
        for row in op.get("rows", []) or []:
            for s in row:
                if isinstance(s, list):
                    yield "set", F(s)


def valid(case):
    try:
        game = case["game"]
        if game not in SCHEMA or case["claim"] not in ("map", "mapset"):
            return False
        if case["claim"] == "map" and len(case["maps"]) != 1:
            return False
        span = (13, -3)
        for m in case["maps"]:
            if list(m.keys()) != list(SCHEMA[game].keys()):
                return False
            for key, d in m.items():
                cols = SCHEMA[game][key]
                for row in d["rows"]:
                    if len(row) != len(cols):
                        return False
                    for c, v in zip(cols, row):
                        if numeric_col(c):
                            if not isinstance(v, list):
                                return False
                            q = F(v)
                            if abs(q) > 2 ** 13 or (q.denominator & (q.denominator - 1)) or q.denominator > 8:
                                return False
                        elif c in BOOL_COLS:
                            if not isinstance(v, bool):
                                return False
                        elif not isinstance(v, str):
                            return False
                if d.get("via", "empty") != "empty" or any(k not in ("rows", "keep", "labels", "via") for k in d):
                    return False
                if "keep" in d and len(d["keep"]) != len(d["rows"]):
                    return False
                if "labels" in d and ("keep" in d or len(d["labels"]) != len(d["rows"])):
                    return False
        if case["claim"] == "map" and not loc_rules_ok(game, case["maps"][0], case["ops"]):
            return False
        by = case.get("by") or {}
        if any(k not in ("chart", "free", "inner") for k in by):
            return False
        for ks in by.values():
            if not isinstance(ks, list) or any(k not in SCHEMA[game] for k in ks) or len(set(ks)) != len(ks):
                return False
        if by and not case["maps"]:
            return False
        if by.get("inner") and len(case["maps"]) < 2:
            return False
        n_st = 0
        for op in case["ops"]:
            k = op["k"]
            v = op.get("v")
            if isinstance(v, str) and v.startswith("list:"):
                return False
            if isinstance(v, dict) and any(isinstance(x, str) and x.startswith("list:") for x in ([v["s"]] if "s" in v else v.get("a", []))):
                return False
            if k == "stack":
                n_st += 1
                if op.get("incl") is not None:
                    reg()
                    if not op["incl"] or any(t not in _ALLTYPES for t in op["incl"]):
                        return False
                continue
            if case["claim"] == "map":
                if op["sid"] >= n_st:
                    return False
                if k in ("loc_set", "loc_map"):
                    cs = op["cols"]
                    if not cs or len(set(cs)) != len(cs) or (op.get("single") and len(cs) != 1):
                        return False
                    mk = op["mask"]
                    if ("cond" in mk) == ("bits" in mk):
                        return False
                    if "cond" in mk:
                        cd = mk["cond"]
                        if len(cd) != 3 or cd[1] not in CMPS or not numeric_col(cd[0]) or not any(cd[0] in v for v in SCHEMA[game].values()):
                            return False
                        F(cd[2])
                    elif mk.get("as_", "array") not in ("array", "list", "series"):
                        return False
                if k in ("map", "attr_map", "loc_map"):
                    tgt = [op.get("col") or op.get("name")] if k != "loc_map" else op["cols"]
                    if any(c in BOOL_COLS for c in tgt):
                        return False
                    if any(c in STR_COLS for c in tgt) and op["f"][0] != "add":
                        return False
            else:
                if op["ms"] >= n_st:
                    return False
        for kind, c in _numbers_of(case):
            if kind == "div":
                a = abs(c)
                if c == 0 or not ((a.numerator == 1 and a.denominator & (a.denominator - 1) == 0) or
                                  (a.denominator == 1 and a.numerator & (a.numerator - 1) == 0)):
                    return False
            if c.denominator & (c.denominator - 1):
                return False
            span = span_after(span, kind, c)
            if span[0] - span[1] > MAX_SPAN:
                return False
        return True
    except Exception:
        return False


# ------------------------------------------------------------------------------------------ adapter

def py_value(col_type, v):
    """JSON cell -> the Python value handed to the implementation"""
    if v is None:
        return float("nan")
    if isinstance(v, bool):
        return v
    if isinstance(v, str):
        if v.startswith("b:"):
            return v[2:].encode()
        if v.startswith("list:"):
            return json.loads(v[5:])
        return v
    q = F(v)
    if col_type == "int" and q.denominator == 1:
        return int(q)
    return float(q)


def cell_of(x):
    """implementation value -> JSON cell"""
    import numpy as np
    if x is None:
        return "none:"
    if isinstance(x, (bool, np.bool_)):
        return [int(bool(x)), 1]      # dtype-blind: True/False and 1/0 are one value (bool columns become object/float)
    if isinstance(x, (int, np.integer)):
        return [int(x), 1]
    if isinstance(x, (float, np.floating)):
        x = float(x)
        if math.isnan(x):
            return None
        if math.isinf(x):
            return "inf:" + ("+" if x > 0 else "-")
        return R(x)
    if isinstance(x, bytes):
        return "b:" + x.decode("latin1")
    if isinstance(x, str):
        return x
    if isinstance(x, (list, tuple)):
        return "list:" + json.dumps(list(x))
    return "obj:" + type(x).__name__


def build_list(info, cols, d):
    import numpy as np
    cls, item, props = info["cls"], info["item"], info["props"]
    rows = d["rows"]
    if d.get("via") == "empty":
        lst = cls.empty(len(rows))
        for j, c in enumerate(cols):
            vals = [py_value(props[c][0], r[j]) for r in rows]
            if all(isinstance(v, (int, float)) and not isinstance(v, bool) for v in vals):
                vals = np.array(vals, dtype=float if any(isinstance(v, float) for v in vals) else np.int64)
            elif all(isinstance(v, bool) for v in vals):
                vals = np.array(vals, dtype=bool)
            else:
                arr = np.empty(len(vals), dtype=object)
                for i, v in enumerate(vals):
                    arr[i] = v
                vals = arr
            setattr(lst, c, vals)          # list_props setter: self.df[c] = vals (what ConvertBase.cast does)
        return lst
    if not rows:
        return cls([])
    lst = cls([item(**{c: py_value(props[c][0], r[j]) for j, c in enumerate(cols)}) for r in rows])
    if "keep" in d:
        lst = lst[np.array(d["keep"], dtype=bool)]
    if "labels" in d:
        lst.df.index = list(d["labels"])
    return lst


def build_map(game, m):
    r = reg()[game]
    mp = r["map"]()
    for key, d in m.items():
        lst = build_list(r["lists"][key], SCHEMA[game][key], d)
        setattr(mp, key, lst)          # the map_props setter: objs[key].df = lst.df
    return mp


def snap_list(key, lst):
    df = lst.df
    cols = [str(c) for c in df.columns]
    labels = [int(x) for x in df.index]
    vals = df.to_numpy(dtype=object) if len(cols) else []
    rows = [[cell_of(v) for v in row] for row in vals] if len(df) else []
    return dict(key=key, cls=type(lst).__name__, cols=cols, labels=labels, rows=rows)


def snap_map(mp):
    return [snap_list(k, v) for k, v in mp.objs.items()]


def make_bystanders(game, charts, by):
    """-> [(name, list object)] of lists that share a frame with chart 0 and are NOT reachable from the edited
    chart(s): whatever is assigned through a stack, they must stay exactly as they are"""
    out = []
    if not by or not charts:
        return out
    r = reg()[game]
    src = charts[0]
    if by.get("chart"):
        other = r["map"]()
        for k in by["chart"]:
            setattr(other, k, getattr(src, k))        # other.objs[k].df = src.<k>.df
        out += [("chart." + k, v) for k, v in other.objs.items()]
    for k in by.get("free", []):
        lst = getattr(src, k)
        out.append(("free." + k, type(lst)(lst)))       # TimedList(other_list): self.df = objs.df
    return out


def snap_bystanders(bys):
    return [snap_list(name, lst) for name, lst in bys]


def bystander_diff(by0, bys):
    now = snap_bystanders(bys)
    for a, b in zip(by0, now):
        if not tbl_eq_lists(a, b):
            return dict(bystander=a["key"], before=a, after=b)
    return None


def err_class(e):
    import pandas as pd
    if isinstance(e, KeyError):
        return "key"
    if isinstance(e, IndexError) or isinstance(e, pd.errors.IndexingError):
        return "index"
    if isinstance(e, TypeError):
        return "type"
    if isinstance(e, AttributeError):
        return "attr"
    if isinstance(e, ValueError):
        return "value"
    return "other:" + type(e).__name__


IOPS = dict(add=operator.iadd, sub=operator.isub, mul=operator.imul, div=operator.itruediv)
CMPS = dict(gt=operator.gt, ge=operator.ge, lt=operator.lt, le=operator.le, eq=operator.eq, ne=operator.ne)


def py_scalar(v):
    if v is None:
        return float("nan")
    if isinstance(v, (bool, str)):
        return py_value("object", v)
    q = F(v)
    return int(q) if q.denominator == 1 else float(q)


def py_array(vals):
    import numpy as np
    if all(isinstance(v, list) or v is None for v in vals):
        return np.array([py_scalar(v) for v in vals], dtype=float)
    arr = np.empty(len(vals), dtype=object)
    for i, v in enumerate(vals):
        arr[i] = py_scalar(v)
    return arr


def py_operand(f):
    q = F(f[1])
    return int(q) if q.denominator == 1 else float(q)


class CondFailed(Exception):
    pass


def resolve_mask(stack, mk):
    """-> (object handed to .loc, explicit bits)"""
    import numpy as np
    import pandas as pd
    if "cond" in mk:
        col, cmp_, thr = mk["cond"]
        q = F(thr)
        try:
            s = CMPS[cmp_](stack[col], int(q) if q.denominator == 1 else float(q))
        except Exception as e:      # noqa: BLE001
            raise CondFailed(repr(e))
        return s, [bool(b) for b in s.tolist()]
    bits = [bool(b) for b in mk["bits"]]
    as_ = mk.get("as_", "array")
    if as_ == "list" and bits:          # an empty Python list is a list of labels, not a boolean mask
        return bits, bits
    if as_ == "series" and len(bits) == len(stack._stacked):
        return pd.Series(bits, dtype=bool), bits
    return np.array(bits, dtype=bool), bits


def do_map_op(stacks, types, mp, op, out):
    """executes one call on the real objects; out[0] := the op as sent to the model (masks made explicit), set
    before the call itself so that it is known when the call raises"""
    k = op["k"]
    if k == "stack":
        incl = op.get("incl")
        sent = dict(k="stack", incl=incl)
        if incl is None:
            st = mp.stack()
        else:
            st = mp.stack(include_types=tuple(types[t] for t in incl))
        stacks.append(st)
        return sent
    st = stacks[op["sid"]]
    if k == "attr_map":
        sent = dict(k=k, sid=op["sid"], name=op["name"], f=op["f"])
        tmp = getattr(st, op["name"])
        tmp = IOPS[op["f"][0]](tmp, py_operand(op["f"]))
        setattr(st, op["name"], tmp)
        return sent
    if k == "map":
        sent = dict(k=k, sid=op["sid"], col=op["col"], f=op["f"])
        tmp = st[op["col"]]
        tmp = IOPS[op["f"][0]](tmp, py_operand(op["f"]))
        st[op["col"]] = tmp
        return sent
    if k in ("attr_set", "set"):
        v = op["v"]
        val = py_scalar(v["s"]) if "s" in v else py_array(v["a"])
        if k == "attr_set":
            sent = dict(k=k, sid=op["sid"], name=op["name"], v=v)
            setattr(st, op["name"], val)
        else:
            sent = dict(k=k, sid=op["sid"], col=op["col"], v=v)
            st[op["col"]] = val
        return sent
    if k in ("loc_set", "loc_map"):
        mobj, bits = resolve_mask(st, op["mask"])
        cols = op["cols"][0] if op.get("single") else list(op["cols"])
        if k == "loc_set":
            sent = dict(k=k, sid=op["sid"], mask=bits, single=bool(op.get("single")), cols=op["cols"], v=op["v"])
            out[0] = sent
            st.loc[mobj, cols] = py_scalar(op["v"])
        else:
            sent = dict(k=k, sid=op["sid"], mask=bits, cols=op["cols"], f=op["f"])
            out[0] = sent
            loc = st.loc
            tmp = loc[mobj, cols]
            tmp = IOPS[op["f"][0]](tmp, py_operand(op["f"]))
            loc[mobj, cols] = tmp
        return sent
    raise ValueError(k)


def wire(x):
    """ops as sent to the driver: bools are sent as 1/0 (see cell_of)"""
    if isinstance(x, bool):
        return [int(x), 1]
    if isinstance(x, dict):
        return {k: (v if k in ("mask", "single") else wire(v)) for k, v in x.items()}
    if isinstance(x, list) and not (len(x) == 2 and all(isinstance(v, int) and not isinstance(v, bool) for v in x)):
        return [wire(v) for v in x]
    return x


def sent_fallback(op):
    """the op as sent to the model when the real call raised before the mask was resolved"""
    s = {k: v for k, v in op.items() if k != "mask"}
    if "mask" in op:
        s["mask"] = op["mask"].get("bits", [])
    return s


def tbl_eq_lists(a, b):
    return json.dumps(a, sort_keys=True) == json.dumps(b, sort_keys=True)


def strip_model(l):
    return dict(key=l["key"], cls=l["cls"], cols=l["cols"], labels=l["labels"], rows=l["rows"])


def first_diff(impl, model):
    for i, (a, b) in enumerate(zip(impl, model)):
        if not tbl_eq_lists(a, b):
            return dict(list=a["key"], impl=a, model=b)
    return dict(len_impl=len(impl), len_model=len(model))


def run(case, drv):
    import warnings
    with warnings.catch_warnings():
        warnings.simplefilter("ignore")
        if case["claim"] == "map":
            return run_map(case, drv)
        return run_set(case, drv)


def run_map(case, drv):
    game = case["game"]
    r = reg()[game]
    tags = [game, "map"]
    mp = build_map(game, case["maps"][0])
    bys = make_bystanders(game, [mp], case.get("by"))
    by0 = snap_bystanders(bys)
    by_bad = None
    if bys:
        tags.append("bystanders")
    init = snap_map(mp)
    if any(l["labels"] != list(range(len(l["labels"]))) for l in init):
        tags.append("non-default-labels")
    if any(not l["rows"] for l in init):
        tags.append("empty-list")
    stacks, sent_ops, impl_steps, impl_errs = [], [], [], []
    n_model_stackers = 0
    for op in case["ops"]:
        err = None
        if op["k"] != "stack" and op["sid"] >= len(stacks):
            # the stacker was never created (its stack() raised): nothing to call
            sent = sent_fallback(op); sent["sid"] = 10 ** 6
            err = "nostacker"
        else:
            out = [None]
            try:
                sent = do_map_op(stacks, r["types"], mp, op, out)
            except Exception as e:           # noqa: BLE001 — exception classes are part of the comparison
                err = err_class(e)
                sent = out[0] or sent_fallback(op)
                if isinstance(e, CondFailed):
                    # the condition itself could not be computed on this stack (never produced by the generators,
                    # only by shrinking): not a case of the property
                    return dict(claim="map", ok=True, agree=True, dom=False, tags=["invalid-cond"], nontrivial=False)
        tags.append(op["k"] + (":" + err if err else ""))
        sent_ops.append(sent)
        impl_errs.append(err)
        impl_steps.append(snap_map(mp))
        if by_bad is None and bys:
            d = bystander_diff(by0, bys)
            if d is not None:
                by_bad = dict(step=len(sent_ops) - 1, op=sent, **d)
    # sids: the model only pushes a stacker when stack() succeeded — same numbering as `stacks`
    sent_ops = [wire(o) for o in sent_ops]
    m = drv.call("c12.run", mcls=r["map"].__name__, lists=init, ops=sent_ops)
    sp = drv.call("c12.spec", mcls=r["map"].__name__, lists=init, ops=sent_ops,
                  failed=[e is not None for e in impl_errs], impl=impl_steps)
    agree, ok, detail = True, True, {}
    fresh = []
    if "ok" not in m or "ok" not in sp:
        return dict(claim="map", ok=None, agree=False, dom=True, tags=tags + ["driver-rejected"], nontrivial=False,
                    detail=dict(model=m, spec=sp))
    mo, so = m["ok"], sp["ok"]
    fresh = mo["fresh"]
    for i, st in enumerate(mo["steps"]):
        ml = [strip_model(l) for l in st["lists"]]
        if st["err"] != impl_errs[i] or not tbl_eq_lists(impl_steps[i], ml) or not all(l.get("keys_ok") for l in st["lists"]):
            agree = False
            detail["corr"] = dict(step=i, op=sent_ops[i], impl_err=impl_errs[i], model_err=st["err"], diff=first_diff(impl_steps[i], ml))
            break
    if len(mo["steps"]) != len(impl_steps):
        agree = False
    first_bad = next((i for i, b in enumerate(so["ok"]) if not b), None)
    if first_bad is not None or not so["complete"]:
        ok = False
        i = first_bad if first_bad is not None else 0
        detail["spec"] = dict(step=i, op=sent_ops[i], fresh=fresh[i] if i < len(fresh) else None,
                              diff=first_diff([{k: v for k, v in l.items() if k != "labels"} for l in impl_steps[i]], so["spec"][i]))
    # a call the proved model performs (through an up-to-date stacker) must not raise: the assignment did not happen
    for i, st in enumerate(mo["steps"]):
        if i < len(impl_errs) and impl_errs[i] is not None and st["err"] is None and fresh[i] and (first_bad is None or i <= first_bad):
            ok = False
            first_bad = i
            detail["raises"] = dict(step=i, op=sent_ops[i], impl_err=impl_errs[i], model_err=None)
            break
    # "changes nothing else": a list outside the edited chart that merely shares a frame with one of its lists
    if by_bad is not None:
        ok = False
        detail["bystander_changed"] = by_bad
    stale = any(not f for f in fresh)
    if stale:
        tags.append("stale-stacker")
    if mo["wf"] and all(mo.get("latest", [False])):
        tags.append("latest-only")        # inside write_through_latest (no hypothesis on the run)
        if stale:                         # theorem latest_fresh says this cannot happen
            agree = False
            detail["latest_but_stale"] = True
    dom = mo["wf"] and not stale
    kf = None
    if not ok and by_bad is None and first_bad is not None and first_bad < len(fresh) and not fresh[first_bad]:
        kf = "D25"      # (a bystander change is never D25: a stale write-back only re-binds the chart's own lists)
    changed = any(not tbl_eq_lists([{k: v for k, v in l.items() if k != "labels"} for l in a],
                                   [{k: v for k, v in l.items() if k != "labels"} for l in b])
                  for a, b in zip([init] + impl_steps[:-1], impl_steps))
    if sum(1 for o in case["ops"] if o["k"] == "stack") > 1:
        tags.append("restack")
    if any(o.get("incl") for o in case["ops"]):
        tags.append("include-types")
    return dict(claim="map", ok=ok, agree=agree, dom=dom, kf=kf, tags=sorted(set(tags)), nontrivial=changed, detail=detail)


def run_set(case, drv):
    import pandas as pd
    game = case["game"]
    r = reg()[game]
    tags = [game, "mapset", f"charts{min(len(case['maps']), 4)}"]
    maps = [build_map(game, m) for m in case["maps"]]
    by = case.get("by") or {}
    if by.get("inner") and len(maps) >= 2:
        for k in by["inner"]:
            setattr(maps[1], k, getattr(maps[0], k))      # chart 1 re-uses chart 0's lists (shared frames)
        tags.append("inner-shared")
    bys = make_bystanders(game, maps, by)
    by0 = snap_bystanders(bys)
    by_bad = None
    if bys:
        tags.append("bystanders")
    S = r["set"]
    ms = S(maps) if S.__name__ == "MapSet" else S(maps=maps)
    init = [snap_map(mp) for mp in maps]
    stacks, impl_steps, impl_errs, sent_ops = [], [], [], []
    for op in case["ops"]:
        err = None
        k = op["k"]
        sent = {kk: v for kk, v in op.items()}
        try:
            if k == "stack":
                stacks.append(ms.stack())
            elif op["ms"] >= len(stacks):
                err = "nostacker"; sent["ms"] = 10 ** 6
            else:
                st = stacks[op["ms"]]
                if k == "attr_map":
                    tmp = getattr(st, op["name"]); tmp = IOPS[op["f"][0]](tmp, py_operand(op["f"])); setattr(st, op["name"], tmp)
                elif k == "map":
                    tmp = st[op["col"]]; tmp = IOPS[op["f"][0]](tmp, py_operand(op["f"])); st[op["col"]] = tmp
                else:
                    val = pd.DataFrame([[py_scalar(v) for v in row] for row in op["rows"]])
                    if k == "attr_set":
                        setattr(st, op["name"], val)
                    else:
                        st[op["col"]] = val
        except Exception as e:              # noqa: BLE001
            err = err_class(e)
        tags.append("set-" + k + (":" + err if err else ""))
        sent_ops.append(sent)
        impl_errs.append(err)
        impl_steps.append([snap_map(mp) for mp in maps])
        if by_bad is None and bys:
            d = bystander_diff(by0, bys)
            if d is not None:
                by_bad = dict(step=len(sent_ops) - 1, op=sent, **d)
    jm = [dict(mcls=r["map"].__name__, lists=l) for l in init]
    sent_ops = [wire(o) for o in sent_ops]
    m = drv.call("c12.run_set", scls=S.__name__, maps=jm, ops=sent_ops)
    sp = drv.call("c12.spec_set", scls=S.__name__, maps=jm, ops=sent_ops, failed=[e is not None for e in impl_errs], impl=impl_steps)
    if "ok" not in m or "ok" not in sp:
        return dict(claim="mapset", ok=None, agree=False, dom=True, tags=tags + ["driver-rejected"], nontrivial=False,
                    detail=dict(model=m, spec=sp))
    agree, ok, detail = True, True, {}
    for i, st in enumerate(m["ok"]["steps"]):
        mm = [[strip_model(l) for l in ls] for ls in st["maps"]]
        if st["err"] != impl_errs[i] or not tbl_eq_lists(impl_steps[i], mm):
            agree = False
            d = next((first_diff(a, b) for a, b in zip(impl_steps[i], mm) if not tbl_eq_lists(a, b)), {})
            detail["corr"] = dict(step=i, op=sent_ops[i], impl_err=impl_errs[i], model_err=st["err"], diff=d)
            break
    first_bad = next((i for i, b in enumerate(sp["ok"]["ok"]) if not b), None)
    if first_bad is not None or not sp["ok"]["complete"]:
        ok = False
        i = first_bad or 0
        detail["spec"] = dict(step=i, op=sent_ops[i], impl=impl_steps[i], spec=sp["ok"]["spec"][i])
    fresh = m["ok"]["fresh"]
    for i, st in enumerate(m["ok"]["steps"]):
        if i < len(impl_errs) and impl_errs[i] is not None and st["err"] is None and fresh[i] and (first_bad is None or i <= first_bad):
            ok = False
            first_bad = i
            detail["raises"] = dict(step=i, op=sent_ops[i], impl_err=impl_errs[i], model_err=None)
            break
    stale = any(not f for f in fresh)
    if stale:
        tags.append("stale-stacker")
    kf = "D25" if (not ok and first_bad is not None and first_bad < len(fresh) and not fresh[first_bad]) else None
    if by_bad is not None:
        ok = False
        kf = None
        detail["bystander_changed"] = by_bad
    changed = any(not tbl_eq_lists(a, b) for a, b in zip([init] + impl_steps[:-1], impl_steps))
    return dict(claim="mapset", ok=ok, agree=agree, dom=not stale, kf=kf, tags=sorted(set(tags)), nontrivial=changed, detail=detail)
