"""C19 — dominant bpm, scroll speed and SV normalisation follow their definitions.

Correspondence: reamber.algorithms.utils.dominant_bpm / analysis.scroll_speed / generate.sv_normalize on
charts built through the public list classes of all five games, against Model/Analysis.lean.
Specification: Spec/Analysis.lean (`totalTime`/`dominantSet`, `allowedSpeeds`/`breakpoints`, `svNormOkB`),
evaluated by the driver on the implementation's output; doubles are compared with the §3 tolerance against
the exact values the Lean spec returns.
"""
import math
import random
import warnings
from fractions import Fraction as Fr

from lib.rat import R, F, close, dev

ID = "C19"
QUICK_N = 1500
THOROUGH_N = 25000
QUICK_BUDGET_S = 80
THOROUGH_BUDGET_S = 900
RULE = ("charts arrive through ordinary histories that leave non-default row labels (rows given out of order + "
        "sorted(), extra rows trimmed with after()/before(), two pieces joined with append(sort=True), Map.rate by 2 or "
        "1/2, stack arithmetic, a sorted() list re-timed in place through the property setter / iloc so that row "
        "order is not time order, sorted().append(sorted(), sort=True)), on tempo / SV / note lists; the model is given "
        "the chart's END state read back from the map; Quaver / osu charts carry non-default header fields "
        "(initial_scroll_velocity, slider_multiplier, ...) with and without an SV on the first time point; "
        "charts of 1-40 (thorough: up to 90) tempo points in shuffled row order with repeated bpm values, 0-60 SVs "
        "(coinciding with tempo points / each other, before the first tempo point, after the last note), notes and holds "
        "(first note at or after the first tempo point, sometimes exactly on tempo points), five games, override "
        "absent / positive / 0; times and multipliers dyadic and tempos from the exactly representable set (so ties "
        "between totals are exact) or arbitrary doubles; claims dominant / speed / normalize; non-trivial = at least two "
        "distinct bpm values, or an SV that is in force at some breakpoint")
ASSUMPTIONS = [
    "`last object` / `first object` of the statement are read as m.stack().offset.max()/min(), which range over notes, "
    "tempo points and SVs (reamberPy's `objs`); a tempo point after the last note therefore counts up to the last "
    "tempo/SV point",
    "pandas sort_values(kind='stable') is modelled as a stable insertion sort (the `kind` arguments are read by the "
    "translator; before the fix of D28 the default unstable sort decided ties at the last offset)",
    "the hypothesis `no SV before the first stacked offset` of scroll_speed_spec holds by construction (the first "
    "stacked offset is the minimum over notes, tempo points and SVs)",
    "coinciding SVs: the specification accepts any of them, the model takes the last in row order as the code does",
]
TRUSTED_EXTRA = ["pandas groupby/merge/ffill/bfill/drop_duplicates/idxmax are modelled as list operations (Model/Analysis.lean)"]

E_BPMS = [50, 60, 75, 100, 120, 125, 128, 150, 160, 200, 240, 250, 300, 375, 37.5, 62.5, 93.75, 187.5, 480, 600]
E_MULTS = [0.25, 0.5, 0.75, 1, 1.25, 1.5, 2, 3, 4, 0.125, 10, 0.0625]
SV_GAMES = ["osu", "quaver"]
GAMES = ["osu", "quaver", "sm", "bms", "o2jam"]

TOL = Fr(1, 2 ** 40)
# header fields the routines must not depend on
META_FIELDS = {"quaver": ("initial_scroll_velocity",), "osu": ("slider_multiplier", "slider_tick_rate", "stack_leniency")}


# ------------------------------------------------------------------------------------------ implementation

def _classes(game):
    if game == "osu":
        from reamber.osu.OsuMap import OsuMap
        from reamber.osu.OsuBpm import OsuBpm
        from reamber.osu.OsuSv import OsuSv
        from reamber.osu.OsuHit import OsuHit
        from reamber.osu.OsuHold import OsuHold
        from reamber.osu.lists.OsuBpmList import OsuBpmList
        from reamber.osu.lists.OsuSvList import OsuSvList
        from reamber.osu.lists.notes.OsuHitList import OsuHitList
        from reamber.osu.lists.notes.OsuHoldList import OsuHoldList
        return OsuMap, OsuBpm, OsuBpmList, OsuHit, OsuHitList, OsuHold, OsuHoldList, OsuSv, OsuSvList
    if game == "quaver":
        from reamber.quaver.QuaMap import QuaMap
        from reamber.quaver.QuaBpm import QuaBpm
        from reamber.quaver.QuaSv import QuaSv
        from reamber.quaver.QuaHit import QuaHit
        from reamber.quaver.QuaHold import QuaHold
        from reamber.quaver.lists.QuaBpmList import QuaBpmList
        from reamber.quaver.lists.QuaSvList import QuaSvList
        from reamber.quaver.lists.notes.QuaHitList import QuaHitList
        from reamber.quaver.lists.notes.QuaHoldList import QuaHoldList
        return QuaMap, QuaBpm, QuaBpmList, QuaHit, QuaHitList, QuaHold, QuaHoldList, QuaSv, QuaSvList
    if game == "sm":
        from reamber.sm.SMMap import SMMap
        from reamber.sm.SMBpm import SMBpm
        from reamber.sm.SMHit import SMHit
        from reamber.sm.SMHold import SMHold
        from reamber.sm.lists.SMBpmList import SMBpmList
        from reamber.sm.lists.notes.SMHitList import SMHitList
        from reamber.sm.lists.notes.SMHoldList import SMHoldList
        return SMMap, SMBpm, SMBpmList, SMHit, SMHitList, SMHold, SMHoldList, None, None
    if game == "bms":
        from reamber.bms.BMSMap import BMSMap
        from reamber.bms.BMSBpm import BMSBpm
        from reamber.bms.BMSHit import BMSHit
        from reamber.bms.BMSHold import BMSHold
        from reamber.bms.lists.BMSBpmList import BMSBpmList
        from reamber.bms.lists.notes.BMSHitList import BMSHitList
        from reamber.bms.lists.notes.BMSHoldList import BMSHoldList
        return BMSMap, BMSBpm, BMSBpmList, BMSHit, BMSHitList, BMSHold, BMSHoldList, None, None
    if game == "o2jam":
        from reamber.o2jam.O2JMap import O2JMap
        from reamber.o2jam.O2JBpm import O2JBpm
        from reamber.o2jam.O2JHit import O2JHit
        from reamber.o2jam.O2JHold import O2JHold
        from reamber.o2jam.lists.O2JBpmList import O2JBpmList
        from reamber.o2jam.lists.notes.O2JHitList import O2JHitList
        from reamber.o2jam.lists.notes.O2JHoldList import O2JHoldList
        return O2JMap, O2JBpm, O2JBpmList, O2JHit, O2JHitList, O2JHold, O2JHoldList, None, None
    raise ValueError(game)


def fl(x):
    return float(F(x))


def _apply_list_op(rows, op, make, filler):
    """builds one list through an ordinary history that ends with exactly `rows` (in this order) but leaves
    non-default row labels. rows: constructor kwargs; make(rows) -> list instance; filler(offset) -> kwargs"""
    if not op or not rows:
        return make(rows)
    k = op["op"]
    rnd = random.Random(op.get("seed", 0))
    if k == "sorted":                       # rows given out of order, then .sorted()
        perm = list(rows)
        rnd.shuffle(perm)
        return make(perm).sorted()
    if k == "filter":                       # extra rows, trimmed away with after()/before()
        lo = min(r["offset"] for r in rows)
        hi = max(r["offset"] for r in rows)
        below = op.get("seed", 0) % 2 == 0
        extras = [filler((lo - 1e6 - 7 * j) if below else (hi + 1e6 + 7 * j)) for j in range(max(1, op.get("n", 1)))]
        allrows = list(rows)
        for e in extras:
            allrows.insert(rnd.randrange(0, len(allrows) + 1), e)
        lst = make(allrows)
        return lst.after(lo - 5e5, include_end=True) if below else lst.before(hi + 5e5, include_end=True)
    if k == "retime":                       # a sorted() list whose rows are then re-timed in place
        ph = [dict(r, offset=float(j)) for j, r in enumerate(rows)]      # placeholders in the final row order
        perm = list(ph)
        rnd.shuffle(perm)
        lst = make(perm).sorted()
        final = [r["offset"] for r in rows]
        if op.get("seed", 0) % 2 == 0:
            lst.offset = final                                            # the list's property setter
        else:
            col = list(lst.df.columns).index("offset")
            for i, t in enumerate(final):
                lst.iloc[i, col] = t
        return lst
    if k == "join":                         # two interleaving pieces, each sorted(), joined with append(sort=True)
        if len(rows) < 2:
            return make(rows)
        first, second = list(rows[::2]), list(rows[1::2])
        rnd.shuffle(first)
        rnd.shuffle(second)
        return make(first).sorted().append(make(second).sorted(), sort=True)
    if k == "append":                       # two pieces joined with append(sort=True)
        if len(rows) < 2:
            return make(rows)
        if op.get("seed", 0) % 2 == 0:
            first, second = rows[::2], rows[1::2]
        else:
            i = 1 + op.get("seed", 0) % (len(rows) - 1)
            first, second = rows[i:], rows[:i]
        return make(first).append(make(second), sort=True)
    raise ValueError(k)


def build_map(case):
    Map, Bpm, BpmList, Hit, HitList, Hold, HoldList, Sv, SvList = _classes(case["game"])
    hist = case.get("hist") or {}
    mop = hist.get("map")
    by = fl(mop["by"]) if mop and mop["op"] == "rate" else 1.0       # 2 or 1/2: exact in doubles
    kw = dict(keysounds=[]) if case["game"] == "quaver" else {}
    m = Map()
    bp = [dict(offset=fl(t) * by, bpm=fl(b) / by) for t, b in case["bpms"]]
    m.bpms = _apply_list_op(bp, hist.get("bpms"), lambda rs: BpmList([Bpm(**r) for r in rs]),
                            lambda o: dict(offset=o, bpm=120.0))
    hits = [dict(offset=fl(t) * by, column=i % 4, **kw) for i, t in enumerate(case["notes"])]
    m.hits = _apply_list_op(hits, hist.get("notes"), lambda rs: HitList([Hit(**r) for r in rs]),
                            lambda o: dict(offset=o, column=0, **kw))
    holds = [dict(offset=fl(t) * by, column=i % 4, length=fl(l) * by, **kw) for i, (t, l) in enumerate(case.get("holds", []))]
    m.holds = _apply_list_op(holds, hist.get("notes"), lambda rs: HoldList([Hold(**r) for r in rs]),
                             lambda o: dict(offset=o, column=0, length=0.0, **kw))
    if Sv is not None:
        sv = [dict(offset=fl(t) * by, multiplier=fl(x)) for t, x in case.get("svs", [])]
        m.svs = _apply_list_op(sv, hist.get("svs"), lambda rs: SvList([Sv(**r) for r in rs]),
                               lambda o: dict(offset=o, multiplier=1.0))
    for name, val in (case.get("meta") or {}).items():       # non-default header fields
        if name not in META_FIELDS.get(case["game"], ()):
            raise ValueError(name)
        setattr(m, name, fl(val))
    if mop:
        if mop["op"] == "rate":
            m = m.rate(by)
        elif mop["op"] == "stack":
            st = m.stack()
            st.offset += 0.0
        else:
            raise ValueError(mop["op"])
    readback(case, m)
    return m


def readback(case, m):
    """the rows the chart ends up with (the END state is what the routines see and what the model is given).
    As sets they must be the rows of the case - else the harness is wrong; their order is read from the chart."""
    got_b = [(Fr(float(o)), Fr(float(b))) for o, b in zip(m.bpms.offset.tolist(), m.bpms.bpm.tolist())]
    want = [(F(t), F(b)) for t, b in case["bpms"]]
    if sorted(got_b) != sorted(want):
        raise AssertionError(f"history does not rebuild the tempo rows: {got_b[:5]} vs {want[:5]}")
    got_s = []
    if hasattr(m, "svs"):
        got_s = [(Fr(float(o)), Fr(float(x))) for o, x in zip(m.svs.offset.tolist(), m.svs.multiplier.tolist())]
        want = [(F(t), F(x)) for t, x in case.get("svs", [])]
        if sorted(got_s) != sorted(want):
            raise AssertionError(f"history does not rebuild the SV rows: {got_s[:5]} vs {want[:5]}")
    got = sorted(Fr(float(o)) for o in m.hits.offset.tolist() + m.holds.offset.tolist())
    want = sorted([F(t) for t in case["notes"]] + [F(t) for t, _ in case.get("holds", [])])
    if got != want:
        raise AssertionError("history does not rebuild the notes")
    m._c19_rows = dict(bpms=[[R(t), R(b)] for t, b in got_b], svs=[[R(t), R(x)] for t, x in got_s],
                       as_planned=(got_b == [(F(t), F(b)) for t, b in case["bpms"]]
                                   and got_s == [(F(t), F(x)) for t, x in (case.get("svs", []) if hasattr(m, "svs") else [])]))


def labels_nondefault(m):
    out = []
    for name in ("bpms", "svs", "hits"):
        if hasattr(m, name):
            df = getattr(m, name).df
            if list(df.index) != list(range(len(df))):
                out.append(name)
    return out


def err_class(e):
    if isinstance(e, ValueError):
        return "value"
    if isinstance(e, ZeroDivisionError):
        return "zerodiv"
    if isinstance(e, (KeyError, IndexError)):
        return "index"
    return "other:" + type(e).__name__


def to_fr(x):
    """implementation number -> Fraction | None (NaN)"""
    if x is None:
        return None
    x = float(x)
    if math.isnan(x):
        return None
    if math.isinf(x):
        raise ValueError("inf")
    return Fr(x)


# ------------------------------------------------------------------------------------------ case helpers

def all_times(case):
    ts = [F(t) for t, _ in case["bpms"]] + [F(t) for t in case["notes"]] + [F(t) for t, _ in case.get("holds", [])]
    if case["game"] in SV_GAMES:
        ts += [F(t) for t, _ in case.get("svs", [])]
    return ts


def exact_floats(case):
    """every number of the case is what the implementation receives: a double"""
    def okn(j):
        f = F(j)
        return Fr(float(f)) == f
    return (all(okn(t) and okn(b) for t, b in case["bpms"]) and all(okn(t) for t in case["notes"])
            and all(okn(t) and okn(l) for t, l in case.get("holds", []))
            and all(okn(t) and okn(x) for t, x in case.get("svs", []))
            and (case.get("override") is None or okn(case["override"])))


def exact_stream(case):
    """every time is a small dyadic rational: the sums and differences the code forms are exact in doubles"""
    return all(F(t).denominator <= 8 and abs(F(t)) < 2 ** 30 for t in
               [p[0] for p in case["bpms"]] + list(case["notes"]) + [h[0] for h in case.get("holds", [])])


def valid(case):
    try:
        if case["claim"] not in ("dominant", "speed", "normalize") or case["game"] not in GAMES:
            return False
        if case["claim"] == "normalize" and case["game"] not in SV_GAMES:
            return False
        bp = case["bpms"]
        if not bp or any(len(p) != 2 for p in bp):
            return False
        ts = [F(t) for t, _ in bp]
        if len(set(ts)) != len(ts) or any(F(b) <= 0 for _, b in bp):
            return False
        if case.get("svs") and case["game"] not in SV_GAMES:
            return False
        if any(len(s) != 2 for s in case.get("svs", [])) or any(len(h) != 2 or F(h[1]) < 0 for h in case.get("holds", [])):
            return False
        note_ts = [F(t) for t in case["notes"]] + [F(t) for t, _ in case.get("holds", [])]
        if not note_ts or min(note_ts) < min(ts):
            return False
        if case.get("override") is not None and F(case["override"]) < 0:
            return False
        for name, val in (case.get("meta") or {}).items():
            if name not in META_FIELDS.get(case["game"], ()) or F(val) <= 0 or Fr(float(F(val))) != F(val):
                return False
        hist = case.get("hist") or {}
        for key, op in hist.items():
            if op is None:
                continue
            if key == "map":
                if op.get("op") not in ("rate", "stack") or (op["op"] == "rate" and F(op["by"]) not in (Fr(2), Fr(1, 2))):
                    return False
                continue
            if key not in ("bpms", "svs", "notes") or op.get("op") not in ("sorted", "filter", "append", "retime", "join"):
                return False
            if not isinstance(op.get("seed", 0), int) or not isinstance(op.get("n", 1), int) or op.get("seed", 0) < 0:
                return False
            if op["op"] in ("sorted", "append", "join") and key in ("bpms", "svs"):
                # the history ends in time order: the rows of the case must be ascending, without ties
                tt = [F(p[0]) for p in case.get(key, [])]
                if any(x >= y for x, y in zip(tt[:-1], tt[1:])):
                    return False
        return exact_floats(case)
    except Exception:
        return False


def jcase(case, m=None):
    """model / spec input. The tempo and SV rows are the chart's END state, read back from the built map"""
    sv = case.get("svs", []) if case["game"] in SV_GAMES else []
    bp = case["bpms"]
    if m is not None:
        bp, sv = m._c19_rows["bpms"], m._c19_rows["svs"]
    ts = all_times(case)
    return dict(bpms=bp, svs=sv, omin=R(min(ts)), omax=R(max(ts)), last=R(max(ts)),
                override=case.get("override"), has_sv=case["game"] in SV_GAMES)


# ------------------------------------------------------------------------------------------ generators

def g_time(rng, exact, hi=60000):
    if exact == "coarse":
        return Fr(1000 * rng.randrange(0, max(1, min(hi, 12000) // 1000)))
    if exact:
        return Fr(rng.randrange(0, hi // 125)) * 125 + rng.choice([0, 0, 0, Fr(1, 2), Fr(1, 4), Fr(3, 8)]) * rng.choice([0, 1])
    return Fr(round(rng.uniform(0, hi), rng.choice([0, 1, 3, 6])))


def g_bpm(rng, exact, pool):
    if pool and rng.random() < 0.55:
        return rng.choice(pool)
    if exact:
        return Fr(rng.choice(E_BPMS))
    return Fr(max(1.0, round(rng.uniform(30, 400), rng.choice([0, 1, 2, 5]))))


def g_mult(rng, exact):
    if exact or rng.random() < 0.3:
        return Fr(rng.choice(E_MULTS))
    return Fr(round(rng.uniform(0.05, 10), rng.choice([1, 2, 4])))


def gen_chart(rng, tier, game, exact):
    big = rng.random() < (0.25 if tier == "thorough" else 0.15)
    n = rng.choice([1, 1, 2, 2, 3, 3, 4, 5, 6, 8, 12, 17, 25, 40])
    if exact and rng.random() < 0.3:
        # coarse grid, few bpm values: exact ties between the totals are frequent
        exact = "coarse"
        n = rng.choice([2, 2, 3, 4, 5, 6, 8])
    elif big:
        n = rng.randint(17, 90 if tier == "thorough" else 70)
    base = g_time(rng, exact, 4000) - rng.choice([0, 0, 1000, 2500])
    times = {base}
    while len(times) < n:
        times.add(base + g_time(rng, exact))
    times = sorted(times)
    pool = []
    bpms = []
    two = [Fr(x) for x in rng.sample(E_BPMS, 2)]
    for t in times:
        b = rng.choice(two) if exact == "coarse" else g_bpm(rng, exact, pool)
        if len(pool) < rng.choice([1, 2, 3, 5]):
            pool.append(b)
        bpms.append([R(t), R(b)])
    t_first, t_last = times[0], times[-1]
    # notes: first one at or after the first tempo point
    k = rng.choice([1, 1, 2, 3, 5, 10])
    notes = []
    for _ in range(k):
        r = rng.random()
        if r < 0.2:
            notes.append(rng.choice(times))
        elif r < 0.3:
            notes.append(t_first)
        elif r < 0.45:
            notes.append(t_last + rng.choice([0, 0, 125, 5000]))
        else:
            notes.append(t_first + g_time(rng, exact, 70000))
    if rng.random() < 0.25:
        notes.append(t_last)          # the last note sits on the last tempo point
    holds = []
    for _ in range(rng.choice([0, 0, 0, 1, 3])):
        holds.append([R(t_first + g_time(rng, exact, 70000)), R(g_time(rng, exact, 20000))])
    svs = []
    if game in SV_GAMES:
        ns = rng.choice([0, 0, 1, 2, 3, 5, 8, 13, 30, 60])
        for _ in range(ns):
            r = rng.random()
            if r < 0.25:
                t = rng.choice(times)
            elif r < 0.4 and svs:
                t = F(rng.choice(svs)[0])
            elif r < 0.5:
                t = t_first - rng.choice([125, 250, 1000, Fr(1, 2)])
            elif r < 0.58:
                t = max(notes) + rng.choice([0, 125, 3000])
            elif r < 0.66:
                t = rng.choice(notes)
            else:
                t = t_first + g_time(rng, exact, 65000)
            svs.append([R(t), R(g_mult(rng, exact))])
    # every number is the double the implementation will receive
    def dbl(j):
        return R(Fr(float(F(j))))
    seen, bp2 = set(), []
    for t, b in bpms:
        t = dbl(t)
        if F(t) not in seen:
            seen.add(F(t))
            bp2.append([t, dbl(b)])
    bpms = bp2
    lo = min(F(t) for t, _ in bpms)
    notes = [max(Fr(float(t)), lo) for t in notes]
    holds = [[R(max(F(dbl(t)), lo)), dbl(l)] for t, l in holds]
    svs = [[dbl(t), dbl(x)] for t, x in svs]
    rng.shuffle(bpms)
    if rng.random() < 0.3:
        bpms.sort(key=lambda p: F(p[0]))
    rng.shuffle(notes)
    return dict(bpms=bpms, svs=svs, notes=[R(t) for t in notes], holds=holds)


def gen_tie(rng, claim, game):
    """two bpm values with exactly equal totals (alternating equal spans, rows shuffled)"""
    n = rng.choice([2, 2, 4, 4, 6, 8])
    a, b = rng.sample(E_BPMS, 2)
    step = rng.choice([250, 1000, 1500])
    base = rng.choice([0, 0, -500, 1250])
    bp = [(base + step * k, a if k % 2 == 0 else b) for k in range(n)]
    if rng.random() < 0.5:          # unequal pieces with the same sum
        bp = [(base, a), (base + step, b), (base + 3 * step, a), (base + 4 * step, b)]
        n = 6
    rng.shuffle(bp)
    notes = [base + rng.choice([0, step // 2]), base + step * n]
    svs = [(base + step * rng.randrange(0, n), rng.choice(E_MULTS)) for _ in range(rng.choice([0, 1, 3]))] if game in SV_GAMES else []
    return _c(claim, game, bp, notes, svs=svs)


def gen_hist(rng, c, game):
    """an ordinary way of arriving at the chart that leaves non-default row labels on its lists"""
    h = {}
    if rng.random() < 0.35:
        return h
    for key in ("bpms", "svs", "notes"):
        if rng.random() < 0.4:
            continue
        kind = rng.choice(["sorted", "filter", "append", "retime", "retime", "join"])
        if key == "svs":
            ts = [F(t) for t, _ in c["svs"]]
            if game not in SV_GAMES or not ts:
                continue
            if len(set(ts)) != len(ts) and kind != "retime":
                kind = "filter"
        if kind in ("sorted", "append", "join") and key in ("bpms", "svs"):
            c[key] = sorted(c[key], key=lambda p: F(p[0]))
        h[key] = dict(op=kind, seed=rng.randrange(0, 1000), n=rng.choice([1, 2, 5]))
    q = rng.random()
    if q < 0.25:
        h["map"] = dict(op="rate", by=R(rng.choice([Fr(2), Fr(1, 2)])))
    elif q < 0.45:
        h["map"] = dict(op="stack")
    return h


def gen_meta(rng, c, game):
    """non-default header fields (the routines must not depend on them); for SV games sometimes an SV on the
    very first time point, so that both situations occur with every header value"""
    meta = {}
    if game == "quaver" and rng.random() < 0.6:
        meta["initial_scroll_velocity"] = R(Fr(rng.choice([0.5, 2.5, 0.75, 2.0, 1.0, 4.0])))
    if game == "osu" and rng.random() < 0.4:
        meta["slider_multiplier"] = R(Fr(rng.choice([2.5, 0.5, 3.0])))
        if rng.random() < 0.5:
            meta["stack_leniency"] = R(Fr(0.25))
    if game in SV_GAMES and rng.random() < 0.3:
        t0 = min(all_times(dict(c, game=game)))
        c["svs"] = c["svs"] + [[R(t0), R(g_mult(rng, True))]]
    return meta


def gen(rng, tier, i):
    c = _gen(rng, tier, i)
    c["meta"] = gen_meta(rng, c, c["game"])
    c["hist"] = gen_hist(rng, c, c["game"])
    return c


def _gen(rng, tier, i):
    if rng.random() < 0.05:
        claim = rng.choice(["dominant", "dominant", "speed", "normalize"])
        game = rng.choice(SV_GAMES if claim == "normalize" else GAMES)
        return gen_tie(rng, claim, game)
    r = rng.random()
    claim = "dominant" if r < 0.3 else ("speed" if r < 0.8 else "normalize")
    if claim == "normalize":
        game = rng.choice(SV_GAMES)
    elif claim == "speed":
        game = rng.choice(["osu", "osu", "quaver", "quaver", "sm", "bms", "o2jam"])
    else:
        game = rng.choice(GAMES)
    exact = rng.random() < 0.7
    c = gen_chart(rng, tier, game, exact)
    ov = None
    if claim != "dominant":
        q = rng.random()
        if q < 0.4:
            ov = R(g_bpm(rng, exact, [F(b) for _, b in c["bpms"]][:3]))
        elif q < 0.45:
            ov = R(0)
    return dict(claim=claim, game=game, override=ov, **c)


def _c(claim, game, bpms, notes, svs=(), holds=(), override=None, **kw):
    return dict(claim=claim, game=game, bpms=[[R(t), R(b)] for t, b in bpms], notes=[R(t) for t in notes],
                svs=[[R(t), R(x)] for t, x in svs], holds=[[R(t), R(l)] for t, l in holds],
                override=None if override is None else R(override), **kw)


def d28_witness():
    """66 tempo points in a fixed shuffled row order, the last note on the last tempo point (whose bpm differs
    from the one before): with the default (unstable) sort this numpy (AVX-512 argsort) orders the marker row
    before the tempo row - the witness of the repaired finding D28"""
    import random
    bp = [(250 * j, [100, 150, 200][j % 3]) for j in range(66)]
    random.Random(3).shuffle(bp)
    return _c("speed", "sm", bp, [0, 250 * 65])


def corpus():
    c = []
    # D18 witness: unsorted tempo rows, the long interval belongs to the row listed second
    c.append(_c("dominant", "osu", [(1000, 200), (0, 100)], [0, 1500]))
    c.append(_c("normalize", "osu", [(1000, 200), (0, 100)], [0, 1500]))
    c.append(_c("speed", "sm", [(1000, 200), (0, 100)], [0, 1500]))
    # exact tie between totals: any maximiser is right, the code returns the smaller bpm
    c.append(_c("dominant", "bms", [(0, 200), (1000, 100)], [0, 2000]))
    c.append(_c("dominant", "quaver", [(0, 120), (1000, 60), (2000, 120), (2500, 60)], [0, 3500]))
    # tempo point and SV after the last note; SV before the first tempo point; coinciding SVs; SV on a tempo point
    c.append(_c("speed", "osu", [(0, 100), (1000, 200)], [-0 + 0, 2000, 3000], svs=[(-500, 0.5), (1500, 2), (1500, 3)]))
    c.append(_c("speed", "osu", [(0, 100), (1000, 200), (5000, 300)], [0, 1500], svs=[(1000, 0.5), (6000, 2)]))
    c.append(_c("speed", "quaver", [(0, 100), (1000, 200)], [2000, 3000], svs=[(0, 0.5)], override=150))
    c.append(_c("speed", "quaver", [(0, 100)], [0], svs=[]))
    c.append(_c("speed", "o2jam", [(0, 100), (1000, 100), (2000, 50)], [0, 1000, 2000], override=0))
    c.append(_c("normalize", "quaver", [(0, 100), (1000, 37.5), (3000, 480)], [10, 4000], override=240))
    c.append(_c("speed", "sm", [(0, 100), (1000, 200)], [0, 1000]))     # tie at the last offset, 4 rows (stable regime)
    c.append(_c("speed", "osu", [(0, 100), (1000, 200)], [500], holds=[(700, 5000)], svs=[(1000, 2), (800, 0.5)]))
    c.append(d28_witness())
    # histories that leave non-default row labels (seeded change C19-C: label-aligned division in sv_normalize)
    hs = dict(bpms=dict(op="sorted", seed=1, n=1))
    c.append(_c("normalize", "osu", [(0, 100), (1000, 200), (2500, 50)], [0, 3000], hist=hs))
    c.append(_c("normalize", "quaver", [(0, 100), (1000, 200), (2500, 50)], [0, 3000], override=150,
                hist=dict(map=dict(op="rate", by=R(2)))))
    c.append(_c("normalize", "osu", [(0, 100), (1000, 200), (2500, 50)], [0, 3000], svs=[(500, 2)],
                hist=dict(bpms=dict(op="filter", seed=4, n=2), map=dict(op="stack"))))
    c.append(_c("speed", "osu", [(0, 100), (1000, 200), (2500, 50)], [0, 3000], svs=[(500, 2), (1000, 0.5), (2600, 3)],
                hist=dict(bpms=dict(op="append", seed=2, n=1), svs=dict(op="sorted", seed=3, n=1),
                          notes=dict(op="filter", seed=5, n=1), map=dict(op="rate", by=R(Fr(1, 2))))))
    c.append(_c("dominant", "sm", [(0, 100), (1000, 200), (2500, 50)], [0, 3000],
                hist=dict(bpms=dict(op="append", seed=3, n=1), map=dict(op="stack"))))
    # a sorted() list re-timed in place so that the row order is no longer the time order; interleaving sorted
    # pieces joined with append(sort=True)   (seeded change C19-E: sorted() trusting a stale marker)
    for claim, game in (("dominant", "osu"), ("normalize", "quaver"), ("speed", "sm")):
        for sd in (0, 1):
            c.append(_c(claim, game, [(1000, 200), (0, 100), (2500, 50)], [0, 3000],
                        hist=dict(bpms=dict(op="retime", seed=sd, n=1))))
        c.append(_c(claim, game, [(0, 100), (1000, 200), (1500, 100), (6000, 50)], [0, 7000],
                    hist=dict(bpms=dict(op="join", seed=2, n=1))))
    # header fields the routines must not read   (seeded change C19-F: initial_scroll_velocity as the first SV)
    c.append(_c("speed", "quaver", [(0, 100), (1000, 200)], [0, 3000], svs=[(500, 2)],
                meta=dict(initial_scroll_velocity=R(2.5))))
    c.append(_c("speed", "quaver", [(0, 100), (1000, 200)], [0, 3000], svs=[(0, 0.5), (500, 2)],
                meta=dict(initial_scroll_velocity=R(0.5))))
    c.append(_c("speed", "osu", [(0, 100), (1000, 200)], [0, 3000], svs=[(500, 2)],
                meta=dict(slider_multiplier=R(2.5), stack_leniency=R(0.25))))
    return c


# ------------------------------------------------------------------------------------------ run

def run(case, drv):
    warnings.simplefilter("ignore")
    return dict(dominant=run_dominant, speed=run_speed, normalize=run_normalize)[case["claim"]](case, drv)


def base_tags(case, jc):
    n = len(case["bpms"])
    tags = [case["game"], "n1" if n == 1 else ("n2-16" if n <= 16 else ("n17-64" if n <= 64 else "n65+")),
            "exact-stream" if exact_stream(case) else "float-stream"]
    if sorted(case["bpms"], key=lambda p: F(p[0])) != case["bpms"]:
        tags.append("unsorted-rows")
    for key, op in (case.get("hist") or {}).items():
        if op:
            tags.append(f"hist-{key}:{op['op']}")
    for name in (case.get("meta") or {}):
        tags.append(f"meta:{name}")
    return tags


def domain(case, jc, drv):
    d = drv.call("c19.dom", bpms=jc["bpms"], omax=jc["omax"])["ok"]
    return d


def admissible_refs(drv, jc, case):
    """reference bpms the specification admits (`Spec.refSet`); off the exact stream a total within the float
    tolerance of the maximum counts as maximal too (the code sums doubles). Returns (refs, near_tie, exact refs)."""
    exact = [F(x) for x in drv.call("c19.refs", bpms=jc["bpms"], last=jc["last"], override=jc["override"])["ok"]]
    if (jc["override"] is not None and F(jc["override"]) != 0) or exact_stream(case):
        return exact, False, exact
    sp = drv.call("c19.dominant_spec", bpms=jc["bpms"], last=jc["last"])["ok"]
    totals = [(F(k), F(v)) for k, v in sp["totals"]]
    if not totals:
        return exact, False, exact
    best = max(v for _, v in totals)
    tol = TOL * (1 + abs(best))
    refs = [k for k, v in totals if best - v <= tol]
    return refs, len(refs) > len(exact), exact


def stack_bounds_agree(m, jc):
    s = m.stack()
    return Fr(float(s.offset.min())) == F(jc["omin"]) and Fr(float(s.offset.max())) == F(jc["omax"])


def run_dominant(case, drv):
    from reamber.algorithms.utils import dominant_bpm
    m = build_map(case)
    jc = jcase(case, m)
    tags = base_tags(case, jc)
    tags += [f"labels:{x}" for x in labels_nondefault(m)] + ([] if m._c19_rows["as_planned"] else ["end-state-reordered"])
    try:
        impl = ("ok", to_fr(dominant_bpm(m)))
    except Exception as e:
        impl = ("err", err_class(e))
    mo = drv.call("c19.dominant", bpms=jc["bpms"], last=jc["last"])
    sp = drv.call("c19.dominant_spec", bpms=jc["bpms"], last=jc["last"])["ok"]
    d = domain(case, jc, drv)
    in_dom = d["tempo_ok"] and d["last_ok"]
    totals = {F(k): F(v) for k, v in sp["totals"]}
    best = max(totals.values()) if totals else Fr(0)
    tol = TOL * (1 + abs(best))
    ok, agree, boundary, maxdev, detail = True, True, False, 0.0, {}
    agree = stack_bounds_agree(m, jc)
    if impl[0] == "err":
        ok = not in_dom
        agree = agree and ("err" in mo) and mo["err"] == impl[1]
        tags.append("impl-raises")
    else:
        v = impl[1]
        if v is None or v not in totals:
            ok = False
        else:
            exact = drv.call("c19.is_dominant", bpms=jc["bpms"], last=jc["last"], v=R(v))["ok"]
            if not exact:
                if best - totals[v] <= tol:
                    boundary = True
                else:
                    ok = False
        if "ok" not in mo:
            agree = False
        elif F(mo["ok"]) != v:
            if v in totals and abs(totals[v] - totals[F(mo["ok"])]) <= tol and not exact_stream(case):
                boundary = True
            else:
                agree = False
    if not (ok and agree):
        detail = dict(impl=str(impl), model=mo, spec=sp)
    if len(sp["set"]) > 1:
        tags.append("tied-totals")
    return dict(claim="dominant", ok=ok, agree=agree, dom=in_dom, kf=None, tags=tags,
                nontrivial=len(totals) >= 2, maxdev=maxdev, boundary=boundary, detail=detail)


def run_normalize(case, drv):
    from reamber.algorithms.generate.sv_normalize import sv_normalize
    m = build_map(case)
    jc = jcase(case, m)
    tags = base_tags(case, jc) + ["override" if case.get("override") is not None else "dominant-ref"]
    tags += [f"labels:{x}" for x in labels_nondefault(m)] + ([] if m._c19_rows["as_planned"] else ["end-state-reordered"])
    ov = None if case.get("override") is None else fl(case["override"])
    try:
        out = sv_normalize(m) if ov is None else sv_normalize(m, ov)
        df = out.df
        impl = ("ok", [[to_fr(a), to_fr(b)] for a, b in zip(df["offset"].tolist(), df["multiplier"].tolist())],
                type(out).__name__)
    except Exception as e:
        impl = ("err", err_class(e))
    mo = drv.call("c19.sv_normalize", bpms=jc["bpms"], last=jc["last"], override=jc["override"])
    refs, near_tie, exact_refs = admissible_refs(drv, jc, case)
    d = domain(case, jc, drv)
    in_dom = d["tempo_ok"] and d["last_ok"] and not (case.get("override") is not None and F(case["override"]) == 0)
    ok, agree, maxdev, detail = True, stack_bounds_agree(m, jc), 0.0, {}
    if impl[0] == "err":
        ok = not in_dom
        agree = agree and "err" in mo and mo["err"] == impl[1]
    else:
        rows = impl[1]
        if any(a is None or b is None for a, b in rows):
            ok = False
        else:
            # the statement names no order: evaluate the relation on both lists ordered by time
            sb = sorted(jc["bpms"], key=lambda p: F(p[0]))
            so = sorted(rows, key=lambda p: p[0])
            ok = False
            for ref in refs:
                ck = drv.call("c19.sv_norm_check", bpms=sb, ref=R(ref), out=[[R(a), R(b)] for a, b in so])["ok"]
                if ck["length_ok"] and ck["times_ok"] and all(close(F(p), ref) for p in ck["products"]):
                    ok = True
                    maxdev = max([dev(F(p), ref) for p in ck["products"]] + [0.0])
                    break
            expect_cls = {"osu": "OsuSvList", "quaver": "QuaSvList"}[case["game"]]
            if impl[2] != expect_cls:
                ok = False
        if "ok" not in mo or len(mo["ok"]) != len(rows):
            agree = False
        elif ok and not near_tie:
            for (a, b), (ma, mb) in zip(rows, mo["ok"]):
                if a != F(ma) or not close(b, F(mb)):
                    # a different maximiser of an exact tie is a legitimate reference too (spec: any)
                    agree = False
    if not (ok and agree):
        detail = dict(impl=str(impl)[:1500], model=mo, refs=[str(r) for r in refs])
    return dict(claim="normalize", ok=ok, agree=agree, dom=in_dom, kf=None, tags=tags, boundary=near_tie,
                nontrivial=len({F(b) for _, b in case["bpms"]}) >= 2, maxdev=maxdev, detail=detail)


def _speed_eval(drv, jc, ref, rows):
    """rows: [(t, s|None)] -> (breakpoints_ok, [row passes], maxdev)"""
    ck = drv.call("c19.speed_check", has_sv=jc["has_sv"], bpms=jc["bpms"], svs=jc["svs"], omin=jc["omin"], omax=jc["omax"],
                  ref=R(ref), out=[[R(t), None if s is None else R(s)] for t, s in rows])["ok"]
    passes, md = [], 0.0
    for (t, s), r in zip(rows, ck["rows"]):
        if r["silent"]:
            passes.append(True)
        elif s is None or r["nearest"] is None:
            passes.append(False)
        else:
            passes.append(close(s, F(r["nearest"])))
            if passes[-1]:
                md = max(md, dev(s, F(r["nearest"])))
    return ck["breakpoints_ok"], passes, md, ck


def run_speed(case, drv):
    from reamber.algorithms.analysis.scroll_speed import scroll_speed
    m = build_map(case)
    jc = jcase(case, m)
    tags = base_tags(case, jc) + ["override" if case.get("override") is not None else "dominant-ref",
                                  "has-sv" if jc["has_sv"] else "no-sv"]
    tags += [f"labels:{x}" for x in labels_nondefault(m)] + ([] if m._c19_rows["as_planned"] else ["end-state-reordered"])
    ov = None if case.get("override") is None else fl(case["override"])
    try:
        s = scroll_speed(m) if ov is None else scroll_speed(m, ov)
        impl = ("ok", [(to_fr(t), to_fr(v)) for t, v in zip(s.index.tolist(), s.tolist())])
    except Exception as e:
        impl = ("err", err_class(e))
    mo = drv.call("c19.scroll_speed", has_sv=jc["has_sv"], bpms=jc["bpms"], svs=jc["svs"], omin=jc["omin"], omax=jc["omax"],
                  override=jc["override"])
    refs, near_tie, exact_refs = admissible_refs(drv, jc, case)
    d = domain(case, jc, drv)
    in_dom = (d["tempo_ok"] and d["last_ok"]
              and not (case.get("override") is not None and F(case["override"]) == 0))
    ok, agree, maxdev, detail, kf = True, stack_bounds_agree(m, jc), 0.0, {}, None
    if d["tie_at_max"]:
        tags.append("tie-at-last-offset")
    if impl[0] == "err":
        ok = not (d["tempo_ok"] and d["last_ok"])
        agree = agree and "err" in mo and mo["err"] == impl[1]
    else:
        rows = impl[1]
        omax = F(jc["omax"])
        ok = False
        last_ck = None
        for ref in refs:
            bok, passes, md, last_ck = _speed_eval(drv, jc, ref, rows)
            if bok and all(passes):
                ok, maxdev = True, md
                break
        if not ok and d["tie_at_max"]:
            # the shape of the repaired finding D28 (tagged only; a fixed finding suppresses nothing): the only
            # wrong rows sit at the last offset next to a right one
            for ref in refs:
                bok, passes, md, _ = _speed_eval(drv, jc, ref, rows)
                bad = [i for i, p in enumerate(passes) if not p]
                good_at_max = [i for i, p in enumerate(passes) if p and rows[i][0] == omax]
                if bok and bad and all(rows[i][0] == omax for i in bad) and good_at_max:
                    tags.append("spurious-row-at-last-offset")
                    break
        if "ok" not in mo:
            agree = False
        else:
            if d["tempo_ok"] and d["last_ok"] and exact_refs:
                # the part of scroll_speed_spec that is not proved yet: the model's own output must satisfy the
                # executable specification exactly (model uses the smallest maximiser / the override)
                mck = drv.call("c19.speed_check", has_sv=jc["has_sv"], bpms=jc["bpms"], svs=jc["svs"], omin=jc["omin"],
                               omax=jc["omax"], ref=R(exact_refs[0]), out=mo["ok"])["ok"]
                if not mck["exact"]:
                    agree = False
                    tags.append("model-breaks-spec")
            a = sorted(rows, key=lambda r: (r[0], Fr(-1) if r[1] is None else r[1]))
            b = sorted([(F(t), None if v is None else F(v)) for t, v in mo["ok"]], key=lambda r: (r[0], Fr(-1) if r[1] is None else r[1]))
            if len(a) != len(b):
                agree = False
            elif not near_tie:
                for (t1, v1), (t2, v2) in zip(a, b):
                    if t1 != t2 or (v1 is None) != (v2 is None) or (v1 is not None and not close(v1, v2)):
                        agree = False
        if not (ok and agree):
            detail = dict(impl=[(str(t), str(v)) for t, v in rows][:200], model=mo, refs=[str(r) for r in refs],
                          check=last_ck)
    sv_in_force = jc["has_sv"] and any(F(t) >= min(F(p[0]) for p in jc["bpms"]) for t, _ in jc["svs"])
    nontrivial = len({F(b) for _, b in case["bpms"]}) >= 2 or sv_in_force
    return dict(claim="speed", ok=ok, agree=agree, dom=in_dom, kf=kf, tags=tags, nontrivial=nontrivial, maxdev=maxdev,
                boundary=near_tie, detail=detail)
