"""C19 — dominant bpm, scroll speed and SV normalisation follow their definitions.

Correspondence: reamber.algorithms.utils.dominant_bpm / analysis.scroll_speed / generate.sv_normalize on
charts built through the public list classes of all five games, against Model/Analysis.lean.
Specification: Spec/Analysis.lean (`totalTime`/`dominantSet`, `allowedSpeeds`/`breakpoints`, `svNormOkB`),
evaluated by the driver on the implementation's output; doubles are compared with the §3 tolerance against
the exact values the Lean spec returns.
"""
import math
import random
import warnings
from fractions import Fraction as Fr

from lib.rat import R, F, close, dev

ID = "C19"
QUICK_N = 1300
THOROUGH_N = 25000
QUICK_BUDGET_S = 80
THOROUGH_BUDGET_S = 900
RULE = ("charts arrive through ordinary histories that leave non-default row labels (rows given out of order + "
        "sorted(), extra rows trimmed with after()/before(), two pieces joined with append(sort=True), Map.rate by 2 or "
        "1/2, stack arithmetic, a sorted() list re-timed in place through the property setter / iloc so that row "
        "order is not time order, sorted().append(sorted(), sort=True)), on tempo / SV / note lists; the model is given "
        "the chart's END state read back from the map; Quaver / osu charts carry non-default header fields "
        "(initial_scroll_velocity, slider_multiplier, ...) with and without an SV on the first time point; "
        "charts of 1-40 (thorough: up to 90) tempo points in shuffled row order with repeated bpm values, 0-60 SVs "
        "(coinciding with tempo points / each other, before the first tempo point, after the last note), notes and holds "
        "(first note at or after the first tempo point, sometimes exactly on tempo points), five games, override "
        "absent / positive / 0; times and multipliers dyadic and tempos from the exactly representable set (so ties "
        "between totals are exact) or arbitrary doubles; claims dominant / speed / normalize; 30 % of the cases are "
        "SESSIONS on one chart object: 2-4 calls (any mix of the three routines, override absent / positive / 0, on the "
        "object itself or on a deepcopy) with an edit between consecutive calls - shift / whole-column assignment / "
        "append / trim / replace on the note, tempo or SV list through every editing route (list property column "
        "assignment in place, iloc / loc / TimedList.__setitem__, a new frame on the same list, a new list object, the "
        "Stacker, append / append(sort=True) / concat, before()/after()), favouring edits that move the first / last "
        "object or change the tempo list; EVERY call is judged by the Lean specification against the chart's content at "
        "that moment, read back through the plain list API, first / last object from the Lean Chart.bounds; 10 % are "
        "boundary charts with a UNIQUE maximal bpm decided by one section (often the last) with margins down to 1/8 ms: "
        "last / first object at exactly 0 (0.0 and -0.0), tempo points entirely negative, a tempo point at 0, one tempo "
        "point, the last object ON a tempo point, and tie charts turned into near misses; the search stream "
        "(gen_search) consists of these boundary / near-miss charts and sessions only; non-trivial = at least two "
        "distinct bpm values, or an SV that is in force at some breakpoint")
ASSUMPTIONS = [
    "`last object` / `first object` of the statement are read as m.stack().offset.max()/min(), which range over notes, "
    "tempo points and SVs (reamberPy's `objs`); a tempo point after the last note therefore counts up to the last "
    "tempo/SV point",
    "pandas sort_values(kind='stable') is modelled as a stable insertion sort (the `kind` arguments are read by the "
    "translator; before the fix of D28 the default unstable sort decided ties at the last offset)",
    "first / last object are Chart.bounds of the Lean model (theorem chart_bounds_cover: they satisfy the hypotheses "
    "`last at or after every tempo point` / `no SV before the first stacked offset` of the routine-level theorems); "
    "the implementation's m.stack().offset.min()/max() is compared with them on every call",
    "an edit between two calls of a session is any function of the chart (theorem session_spec); the harness realises "
    "edits through the public list / Stacker API and reads the resulting content back, it does not model the edit",
    "coinciding SVs: the specification accepts any of them, the model takes the last in row order as the code does",
]
TRUSTED_EXTRA = ["pandas groupby/merge/ffill/bfill/drop_duplicates/idxmax are modelled as list operations (Model/Analysis.lean)"]

E_BPMS = [50, 60, 75, 100, 120, 125, 128, 150, 160, 200, 240, 250, 300, 375, 37.5, 62.5, 93.75, 187.5, 480, 600]
E_MULTS = [0.25, 0.5, 0.75, 1, 1.25, 1.5, 2, 3, 4, 0.125, 10, 0.0625]
SV_GAMES = ["osu", "quaver"]
GAMES = ["osu", "quaver", "sm", "bms", "o2jam"]

TOL = Fr(1, 2 ** 40)
# header fields the routines must not depend on
META_FIELDS = {"quaver": ("initial_scroll_velocity",), "osu": ("slider_multiplier", "slider_tick_rate", "stack_leniency")}


# ------------------------------------------------------------------------------------------ implementation

def _classes(game):
    if game == "osu":
        from reamber.osu.OsuMap import OsuMap
        from reamber.osu.OsuBpm import OsuBpm
        from reamber.osu.OsuSv import OsuSv
        from reamber.osu.OsuHit import OsuHit
        from reamber.osu.OsuHold import OsuHold
        from reamber.osu.lists.OsuBpmList import OsuBpmList
        from reamber.osu.lists.OsuSvList import OsuSvList
        from reamber.osu.lists.notes.OsuHitList import OsuHitList
        from reamber.osu.lists.notes.OsuHoldList import OsuHoldList
        return OsuMap, OsuBpm, OsuBpmList, OsuHit, OsuHitList, OsuHold, OsuHoldList, OsuSv, OsuSvList
    if game == "quaver":
        from reamber.quaver.QuaMap import QuaMap
        from reamber.quaver.QuaBpm import QuaBpm
        from reamber.quaver.QuaSv import QuaSv
        from reamber.quaver.QuaHit import QuaHit
        from reamber.quaver.QuaHold import QuaHold
        from reamber.quaver.lists.QuaBpmList import QuaBpmList
        from reamber.quaver.lists.QuaSvList import QuaSvList
        from reamber.quaver.lists.notes.QuaHitList import QuaHitList
        from reamber.quaver.lists.notes.QuaHoldList import QuaHoldList
        return QuaMap, QuaBpm, QuaBpmList, QuaHit, QuaHitList, QuaHold, QuaHoldList, QuaSv, QuaSvList
    if game == "sm":
        from reamber.sm.SMMap import SMMap
        from reamber.sm.SMBpm import SMBpm
        from reamber.sm.SMHit import SMHit
        from reamber.sm.SMHold import SMHold
        from reamber.sm.lists.SMBpmList import SMBpmList
        from reamber.sm.lists.notes.SMHitList import SMHitList
        from reamber.sm.lists.notes.SMHoldList import SMHoldList
        return SMMap, SMBpm, SMBpmList, SMHit, SMHitList, SMHold, SMHoldList, None, None
    if game == "bms":
        from reamber.bms.BMSMap import BMSMap
        from reamber.bms.BMSBpm import BMSBpm
        from reamber.bms.BMSHit import BMSHit
        from reamber.bms.BMSHold import BMSHold
        from reamber.bms.lists.BMSBpmList import BMSBpmList
        from reamber.bms.lists.notes.BMSHitList import BMSHitList
        from reamber.bms.lists.notes.BMSHoldList import BMSHoldList
        return BMSMap, BMSBpm, BMSBpmList, BMSHit, BMSHitList, BMSHold, BMSHoldList, None, None
    if game == "o2jam":
        from reamber.o2jam.O2JMap import O2JMap
        from reamber.o2jam.O2JBpm import O2JBpm
        from reamber.o2jam.O2JHit import O2JHit
        from reamber.o2jam.O2JHold import O2JHold
        from reamber.o2jam.lists.O2JBpmList import O2JBpmList
        from reamber.o2jam.lists.notes.O2JHitList import O2JHitList
        from reamber.o2jam.lists.notes.O2JHoldList import O2JHoldList
        return O2JMap, O2JBpm, O2JBpmList, O2JHit, O2JHitList, O2JHold, O2JHoldList, None, None
    raise ValueError(game)


def fl(x):
    return float(F(x))


def _apply_list_op(rows, op, make, filler):
    """builds one list through an ordinary history that ends with exactly `rows` (in this order) but leaves
    non-default row labels. rows: constructor kwargs; make(rows) -> list instance; filler(offset) -> kwargs"""
    if not op or not rows:
        return make(rows)
    k = op["op"]
    rnd = random.Random(op.get("seed", 0))
    if k == "sorted":                       # rows given out of order, then .sorted()
        perm = list(rows)
        rnd.shuffle(perm)
        return make(perm).sorted()
    if k == "filter":                       # extra rows, trimmed away with after()/before()
        lo = min(r["offset"] for r in rows)
        hi = max(r["offset"] for r in rows)
        below = op.get("seed", 0) % 2 == 0
        extras = [filler((lo - 1e6 - 7 * j) if below else (hi + 1e6 + 7 * j)) for j in range(max(1, op.get("n", 1)))]
        allrows = list(rows)
        for e in extras:
            allrows.insert(rnd.randrange(0, len(allrows) + 1), e)
        lst = make(allrows)
        return lst.after(lo - 5e5, include_end=True) if below else lst.before(hi + 5e5, include_end=True)
    if k == "retime":                       # a sorted() list whose rows are then re-timed in place
        ph = [dict(r, offset=float(j)) for j, r in enumerate(rows)]      # placeholders in the final row order
        perm = list(ph)
        rnd.shuffle(perm)
        lst = make(perm).sorted()
        final = [r["offset"] for r in rows]
        if op.get("seed", 0) % 2 == 0:
            lst.offset = final                                            # the list's property setter
        else:
            col = list(lst.df.columns).index("offset")
            for i, t in enumerate(final):
                lst.iloc[i, col] = t
        return lst
    if k == "join":                         # two interleaving pieces, each sorted(), joined with append(sort=True)
        if len(rows) < 2:
            return make(rows)
        first, second = list(rows[::2]), list(rows[1::2])
        rnd.shuffle(first)
        rnd.shuffle(second)
        return make(first).sorted().append(make(second).sorted(), sort=True)
    if k == "append":                       # two pieces joined with append(sort=True)
        if len(rows) < 2:
            return make(rows)
        if op.get("seed", 0) % 2 == 0:
            first, second = rows[::2], rows[1::2]
        else:
            i = 1 + op.get("seed", 0) % (len(rows) - 1)
            first, second = rows[i:], rows[:i]
        return make(first).append(make(second), sort=True)
    raise ValueError(k)


def build_map(case):
    Map, Bpm, BpmList, Hit, HitList, Hold, HoldList, Sv, SvList = _classes(case["game"])
    hist = case.get("hist") or {}
    mop = hist.get("map")
    by = fl(mop["by"]) if mop and mop["op"] == "rate" else 1.0       # 2 or 1/2: exact in doubles
    kw = dict(keysounds=[]) if case["game"] == "quaver" else {}
    m = Map()
    nz = bool(case.get("negzero"))

    def flz(x):                        # every time equal to 0 is handed over as -0.0 when the case asks for it
        v = float(F(x))
        return -0.0 if (nz and v == 0.0) else v
    bp = [dict(offset=flz(t) * by, bpm=fl(b) / by) for t, b in case["bpms"]]
    m.bpms = _apply_list_op(bp, hist.get("bpms"), lambda rs: BpmList([Bpm(**r) for r in rs]),
                            lambda o: dict(offset=o, bpm=120.0))
    hits = [dict(offset=flz(t) * by, column=i % 4, **kw) for i, t in enumerate(case["notes"])]
    m.hits = _apply_list_op(hits, hist.get("notes"), lambda rs: HitList([Hit(**r) for r in rs]),
                            lambda o: dict(offset=o, column=0, **kw))
    holds = [dict(offset=flz(t) * by, column=i % 4, length=fl(l) * by, **kw) for i, (t, l) in enumerate(case.get("holds", []))]
    m.holds = _apply_list_op(holds, hist.get("notes"), lambda rs: HoldList([Hold(**r) for r in rs]),
                             lambda o: dict(offset=o, column=0, length=0.0, **kw))
    if Sv is not None:
        sv = [dict(offset=flz(t) * by, multiplier=fl(x)) for t, x in case.get("svs", [])]
        m.svs = _apply_list_op(sv, hist.get("svs"), lambda rs: SvList([Sv(**r) for r in rs]),
                               lambda o: dict(offset=o, multiplier=1.0))
    for name, val in (case.get("meta") or {}).items():       # non-default header fields
        if name not in META_FIELDS.get(case["game"], ()):
            raise ValueError(name)
        setattr(m, name, fl(val))
    if mop:
        if mop["op"] == "rate":
            m = m.rate(by)
        elif mop["op"] == "stack":
            st = m.stack()
            st.offset += 0.0
        else:
            raise ValueError(mop["op"])
    readback(case, m)
    return m


def readback(case, m):
    """the rows the chart ends up with (the END state is what the routines see and what the model is given).
    As sets they must be the rows of the case - else the harness is wrong; their order is read from the chart."""
    got_b = [(Fr(float(o)), Fr(float(b))) for o, b in zip(m.bpms.offset.tolist(), m.bpms.bpm.tolist())]
    want = [(F(t), F(b)) for t, b in case["bpms"]]
    if sorted(got_b) != sorted(want):
        raise AssertionError(f"history does not rebuild the tempo rows: {got_b[:5]} vs {want[:5]}")
    got_s = []
    if hasattr(m, "svs"):
        got_s = [(Fr(float(o)), Fr(float(x))) for o, x in zip(m.svs.offset.tolist(), m.svs.multiplier.tolist())]
        want = [(F(t), F(x)) for t, x in case.get("svs", [])]
        if sorted(got_s) != sorted(want):
            raise AssertionError(f"history does not rebuild the SV rows: {got_s[:5]} vs {want[:5]}")
    got = sorted(Fr(float(o)) for o in m.hits.offset.tolist() + m.holds.offset.tolist())
    want = sorted([F(t) for t in case["notes"]] + [F(t) for t, _ in case.get("holds", [])])
    if got != want:
        raise AssertionError("history does not rebuild the notes")
    m._c19_rows = dict(bpms=[[R(t), R(b)] for t, b in got_b], svs=[[R(t), R(x)] for t, x in got_s],
                       as_planned=(got_b == [(F(t), F(b)) for t, b in case["bpms"]]
                                   and got_s == [(F(t), F(x)) for t, x in (case.get("svs", []) if hasattr(m, "svs") else [])]))


def labels_nondefault(m):
    out = []
    for name in ("bpms", "svs", "hits"):
        if hasattr(m, name):
            df = getattr(m, name).df
            if list(df.index) != list(range(len(df))):
                out.append(name)
    return out


def err_class(e):
    if isinstance(e, ValueError):
        return "value"
    if isinstance(e, ZeroDivisionError):
        return "zerodiv"
    if isinstance(e, (KeyError, IndexError)):
        return "index"
    return "other:" + type(e).__name__


def to_fr(x):
    """implementation number -> Fraction | None (NaN)"""
    if x is None:
        return None
    x = float(x)
    if math.isnan(x):
        return None
    if math.isinf(x):
        raise ValueError("inf")
    return Fr(x)


# ------------------------------------------------------------------------------------------ case helpers

def all_times(case):
    ts = [F(t) for t, _ in case["bpms"]] + [F(t) for t in case["notes"]] + [F(t) for t, _ in case.get("holds", [])]
    if case["game"] in SV_GAMES:
        ts += [F(t) for t, _ in case.get("svs", [])]
    return ts


def exact_floats(case):
    """every number of the case is what the implementation receives: a double"""
    def okn(j):
        f = F(j)
        return Fr(float(f)) == f
    return (all(okn(t) and okn(b) for t, b in case["bpms"]) and all(okn(t) for t in case["notes"])
            and all(okn(t) and okn(l) for t, l in case.get("holds", []))
            and all(okn(t) and okn(x) for t, x in case.get("svs", []))
            and (case.get("override") is None or okn(case["override"])))


def exact_stream(case):
    """every time is a small dyadic rational: the sums and differences the code forms are exact in doubles"""
    return all(F(t).denominator <= 8 and abs(F(t)) < 2 ** 30 for t in
               [p[0] for p in case["bpms"]] + list(case["notes"]) + [h[0] for h in case.get("holds", [])])


def valid(case):
    try:
        if case["claim"] not in ("dominant", "speed", "normalize") or case["game"] not in GAMES:
            return False
        if case["claim"] == "normalize" and case["game"] not in SV_GAMES:
            return False
        bp = case["bpms"]
        if not bp or any(len(p) != 2 for p in bp):
            return False
        ts = [F(t) for t, _ in bp]
        if len(set(ts)) != len(ts) or any(F(b) <= 0 for _, b in bp):
            return False
        if case.get("svs") and case["game"] not in SV_GAMES:
            return False
        if any(len(s) != 2 for s in case.get("svs", [])) or any(len(h) != 2 or F(h[1]) < 0 for h in case.get("holds", [])):
            return False
        note_ts = [F(t) for t in case["notes"]] + [F(t) for t, _ in case.get("holds", [])]
        if not note_ts or min(note_ts) < min(ts):
            return False
        if case.get("override") is not None and F(case["override"]) < 0:
            return False
        for name, val in (case.get("meta") or {}).items():
            if name not in META_FIELDS.get(case["game"], ()) or F(val) <= 0 or Fr(float(F(val))) != F(val):
                return False
        hist = case.get("hist") or {}
        for key, op in hist.items():
            if op is None:
                continue
            if key == "map":
                if op.get("op") not in ("rate", "stack") or (op["op"] == "rate" and F(op["by"]) not in (Fr(2), Fr(1, 2))):
                    return False
                continue
            if key not in ("bpms", "svs", "notes") or op.get("op") not in ("sorted", "filter", "append", "retime", "join"):
                return False
            if not isinstance(op.get("seed", 0), int) or not isinstance(op.get("n", 1), int) or op.get("seed", 0) < 0:
                return False
            if op["op"] in ("sorted", "append", "join") and key in ("bpms", "svs"):
                # the history ends in time order: the rows of the case must be ascending, without ties
                tt = [F(p[0]) for p in case.get(key, [])]
                if any(x >= y for x, y in zip(tt[:-1], tt[1:])):
                    return False
        if case.get("negzero") not in (None, False, True):
            return False
        return exact_floats(case) and session_valid(case)
    except Exception:
        return False


def jcase(case, m=None):
    """model / spec input. The tempo and SV rows are the chart's END state, read back from the built map"""
    sv = case.get("svs", []) if case["game"] in SV_GAMES else []
    bp = case["bpms"]
    if m is not None:
        bp, sv = m._c19_rows["bpms"], m._c19_rows["svs"]
    ts = all_times(case)
    return dict(bpms=bp, svs=sv, omin=R(min(ts)), omax=R(max(ts)), last=R(max(ts)),
                override=case.get("override"), has_sv=case["game"] in SV_GAMES)


# ------------------------------------------------------------------------------------------ generators

def g_time(rng, exact, hi=60000):
    if exact == "coarse":
        return Fr(1000 * rng.randrange(0, max(1, min(hi, 12000) // 1000)))
    if exact:
        return Fr(rng.randrange(0, hi // 125)) * 125 + rng.choice([0, 0, 0, Fr(1, 2), Fr(1, 4), Fr(3, 8)]) * rng.choice([0, 1])
    return Fr(round(rng.uniform(0, hi), rng.choice([0, 1, 3, 6])))


def g_bpm(rng, exact, pool):
    if pool and rng.random() < 0.55:
        return rng.choice(pool)
    if exact:
        return Fr(rng.choice(E_BPMS))
    return Fr(max(1.0, round(rng.uniform(30, 400), rng.choice([0, 1, 2, 5]))))


def g_mult(rng, exact):
    if exact or rng.random() < 0.3:
        return Fr(rng.choice(E_MULTS))
    return Fr(round(rng.uniform(0.05, 10), rng.choice([1, 2, 4])))


def gen_chart(rng, tier, game, exact):
    big = rng.random() < (0.25 if tier == "thorough" else 0.15)
    n = rng.choice([1, 1, 2, 2, 3, 3, 4, 5, 6, 8, 12, 17, 25, 40])
    if exact and rng.random() < 0.3:
        # coarse grid, few bpm values: exact ties between the totals are frequent
        exact = "coarse"
        n = rng.choice([2, 2, 3, 4, 5, 6, 8])
    elif big:
        n = rng.randint(17, 90 if tier == "thorough" else 70)
    base = g_time(rng, exact, 4000) - rng.choice([0, 0, 1000, 2500])
    times = {base}
    while len(times) < n:
        times.add(base + g_time(rng, exact))
    times = sorted(times)
    pool = []
    bpms = []
    two = [Fr(x) for x in rng.sample(E_BPMS, 2)]
    for t in times:
        b = rng.choice(two) if exact == "coarse" else g_bpm(rng, exact, pool)
        if len(pool) < rng.choice([1, 2, 3, 5]):
            pool.append(b)
        bpms.append([R(t), R(b)])
    t_first, t_last = times[0], times[-1]
    # notes: first one at or after the first tempo point
    k = rng.choice([1, 1, 2, 3, 5, 10])
    notes = []
    for _ in range(k):
        r = rng.random()
        if r < 0.2:
            notes.append(rng.choice(times))
        elif r < 0.3:
            notes.append(t_first)
        elif r < 0.45:
            notes.append(t_last + rng.choice([0, 0, 125, 5000]))
        else:
            notes.append(t_first + g_time(rng, exact, 70000))
    if rng.random() < 0.25:
        notes.append(t_last)          # the last note sits on the last tempo point
    holds = []
    for _ in range(rng.choice([0, 0, 0, 1, 3])):
        holds.append([R(t_first + g_time(rng, exact, 70000)), R(g_time(rng, exact, 20000))])
    svs = []
    if game in SV_GAMES:
        ns = rng.choice([0, 0, 1, 2, 3, 5, 8, 13, 30, 60])
        for _ in range(ns):
            r = rng.random()
            if r < 0.25:
                t = rng.choice(times)
            elif r < 0.4 and svs:
                t = F(rng.choice(svs)[0])
            elif r < 0.5:
                t = t_first - rng.choice([125, 250, 1000, Fr(1, 2)])
            elif r < 0.58:
                t = max(notes) + rng.choice([0, 125, 3000])
            elif r < 0.66:
                t = rng.choice(notes)
            else:
                t = t_first + g_time(rng, exact, 65000)
            svs.append([R(t), R(g_mult(rng, exact))])
    # every number is the double the implementation will receive
    def dbl(j):
        return R(Fr(float(F(j))))
    seen, bp2 = set(), []
    for t, b in bpms:
        t = dbl(t)
        if F(t) not in seen:
            seen.add(F(t))
            bp2.append([t, dbl(b)])
    bpms = bp2
    lo = min(F(t) for t, _ in bpms)
    notes = [max(Fr(float(t)), lo) for t in notes]
    holds = [[R(max(F(dbl(t)), lo)), dbl(l)] for t, l in holds]
    svs = [[dbl(t), dbl(x)] for t, x in svs]
    rng.shuffle(bpms)
    if rng.random() < 0.3:
        bpms.sort(key=lambda p: F(p[0]))
    rng.shuffle(notes)
    return dict(bpms=bpms, svs=svs, notes=[R(t) for t in notes], holds=holds)


def gen_tie(rng, claim, game):
    """two bpm values with exactly equal totals (alternating equal spans, rows shuffled)"""
    n = rng.choice([2, 2, 4, 4, 6, 8])
    a, b = rng.sample(E_BPMS, 2)
    step = rng.choice([250, 1000, 1500])
    base = rng.choice([0, 0, -500, 1250])
    bp = [(base + step * k, a if k % 2 == 0 else b) for k in range(n)]
    if rng.random() < 0.5:          # unequal pieces with the same sum
        bp = [(base, a), (base + step, b), (base + 3 * step, a), (base + 4 * step, b)]
        n = 6
    rng.shuffle(bp)
    notes = [base + rng.choice([0, step // 2]), base + step * n]
    svs = [(base + step * rng.randrange(0, n), rng.choice(E_MULTS)) for _ in range(rng.choice([0, 1, 3]))] if game in SV_GAMES else []
    return _c(claim, game, bp, notes, svs=svs)


def gen_hist(rng, c, game):
    """an ordinary way of arriving at the chart that leaves non-default row labels on its lists"""
    h = {}
    if rng.random() < 0.35:
        return h
    for key in ("bpms", "svs", "notes"):
        if rng.random() < 0.4:
            continue
        kind = rng.choice(["sorted", "filter", "append", "retime", "retime", "join"])
        if key == "svs":
            ts = [F(t) for t, _ in c["svs"]]
            if game not in SV_GAMES or not ts:
                continue
            if len(set(ts)) != len(ts) and kind != "retime":
                kind = "filter"
        if kind in ("sorted", "append", "join") and key in ("bpms", "svs"):
            c[key] = sorted(c[key], key=lambda p: F(p[0]))
        h[key] = dict(op=kind, seed=rng.randrange(0, 1000), n=rng.choice([1, 2, 5]))
    q = rng.random()
    if q < 0.25:
        h["map"] = dict(op="rate", by=R(rng.choice([Fr(2), Fr(1, 2)])))
    elif q < 0.45:
        h["map"] = dict(op="stack")
    return h


def gen_meta(rng, c, game):
    """non-default header fields (the routines must not depend on them); for SV games sometimes an SV on the
    very first time point, so that both situations occur with every header value"""
    meta = {}
    if game == "quaver" and rng.random() < 0.6:
        meta["initial_scroll_velocity"] = R(Fr(rng.choice([0.5, 2.5, 0.75, 2.0, 1.0, 4.0])))
    if game == "osu" and rng.random() < 0.4:
        meta["slider_multiplier"] = R(Fr(rng.choice([2.5, 0.5, 3.0])))
        if rng.random() < 0.5:
            meta["stack_leniency"] = R(Fr(0.25))
    if game in SV_GAMES and rng.random() < 0.3:
        t0 = min(all_times(dict(c, game=game)))
        c["svs"] = c["svs"] + [[R(t0), R(g_mult(rng, True))]]
    return meta


def gen(rng, tier, i):
    c = _gen(rng, tier, i)
    if "meta" not in c:
        c["meta"] = gen_meta(rng, c, c["game"])
    if "hist" not in c:
        c["hist"] = gen_hist(rng, c, c["game"])
    if rng.random() < 0.3:
        c["session"] = gen_session(rng, c, c["game"], exact_stream(c))
    return c


def gen_boundary(rng, claim, game):
    """falsy-but-legal values at the boundaries, with a UNIQUE maximal bpm so that the specification decides:
    last / first object at offset exactly 0 (0.0 or -0.0), tempo points entirely on the negative axis, a single
    tempo point, the last object ON a tempo point, a tempo point at 0. One section (`k`, often the last one) carries
    a bpm value of its own and is longer than every other value's total by `margin` (down to 1/8 ms: near misses)."""
    n = rng.choice([1, 1, 2, 2, 2, 3, 3, 4, 6])
    last_on_tp = n >= 2 and rng.random() < 0.2            # the last section has length 0
    vals = [Fr(x) for x in rng.sample(E_BPMS, 3)]
    k = (n - 1) if rng.random() < 0.5 else rng.randrange(n)
    if last_on_tp and k == n - 1:
        k = rng.randrange(n - 1)
    lens, bp = [], []
    for j in range(n):
        lens.append(Fr(rng.choice([125, 250, 500, 1000, 1500])))
        bp.append(vals[0] if j == k else rng.choice(vals[1:]))
    if last_on_tp:
        lens[-1] = Fr(0)
    others = {}
    for j in range(n):
        if j != k:
            others[bp[j]] = others.get(bp[j], Fr(0)) + lens[j]
    margin = Fr(rng.choice([Fr(1, 8), 1, 125, 1000, 4000]))
    lens[k] = max(others.values(), default=Fr(0)) + margin
    total = sum(lens)
    anchor = rng.choice(["end0", "end0", "end0", "first0", "mid0", "none"])
    if anchor == "end0":
        t0 = -total
    elif anchor == "first0":
        t0 = Fr(0)
    elif anchor == "mid0":
        t0 = -sum(lens[:rng.randrange(0, n)])
    else:
        t0 = Fr(rng.choice([-3000, 250, 100000]))
    times = [t0 + sum(lens[:j]) for j in range(n)]
    end = t0 + total
    notes = [t0 if rng.random() < 0.7 else t0 + min(total, Fr(125)), end]
    for _ in range(rng.choice([0, 0, 1, 3])):
        notes.append(t0 + Fr(int(total * rng.randrange(0, 9)), 8))
    svs = []
    if game in SV_GAMES:
        for _ in range(rng.choice([0, 0, 1, 2, 3])):
            svs.append((rng.choice([t0, end, Fr(0) if t0 <= 0 <= end else t0, rng.choice(times), t0 + Fr(int(total * 4), 8)]),
                        Fr(rng.choice(E_MULTS))))
    rows = list(zip(times, bp))
    if rng.random() < 0.5:
        rng.shuffle(rows)
    ov = None
    if claim != "dominant" and rng.random() < 0.25:
        ov = rng.choice([Fr(0), Fr(0), vals[1], Fr(rng.choice(E_BPMS))])
    c = _c(claim, game, rows, notes, svs=svs, override=ov)
    if rng.random() < 0.4:
        c["negzero"] = True
    return c


def break_tie(rng, c):
    """near-miss variant of a chart whose totals tie: the last object is moved by a small step, so that one value is
    the unique maximum and the specification decides"""
    ts = all_times(c)
    last, t0 = max(ts), min(F(t) for t, _ in c["bpms"])
    d = Fr(rng.choice([Fr(1, 8), Fr(1, 2), 1, 125, 1000]))
    new_last = last + d
    if rng.random() < 0.5 and last - d > max(F(t) for t, _ in c["bpms"]) and all(F(t) <= last - d for t, _ in c.get("svs", [])):
        # earlier: every object after the new end moves onto it
        new_last = last - d
        c["notes"] = [R(min(F(t), new_last)) for t in c["notes"]]
        c["holds"] = [[R(min(F(t), new_last)), l] for t, l in c.get("holds", [])]
    else:
        c["notes"] = list(c["notes"]) + [R(new_last)]
    return c


def gen_search(rng, tier, i):
    """the stream used when a correspondence breaks (lib/core.py): charts on which the specification DECIDES -
    boundary layouts with a unique maximal bpm, tie charts turned into near misses, and sessions on all of them"""
    r = rng.random()
    claim = rng.choice(["dominant", "dominant", "speed", "normalize"])
    game = rng.choice(SV_GAMES if claim == "normalize" else GAMES)
    if r < 0.5:
        c = gen_boundary(rng, claim, game)
    elif r < 0.75:
        c = break_tie(rng, gen_tie(rng, claim, game))
    else:
        c = _gen(rng, tier, i)
        if "negzero" not in c and exact_stream(c):
            tot = py_totals([(F(t), F(b)) for t, b in c["bpms"]], max(all_times(c)))
            if sorted(tot.values())[-2:].count(max(tot.values())) > 1:
                c = break_tie(rng, c)
    c.setdefault("meta", {})
    if "hist" not in c:
        c["hist"] = gen_hist(rng, c, c["game"]) if rng.random() < 0.5 else {}
    if rng.random() < 0.45:
        c["session"] = gen_session(rng, c, c["game"], exact_stream(c))
    return c


def _gen(rng, tier, i):
    q0 = rng.random()
    if q0 < 0.05:
        claim = rng.choice(["dominant", "dominant", "speed", "normalize"])
        game = rng.choice(SV_GAMES if claim == "normalize" else GAMES)
        return gen_tie(rng, claim, game)
    if q0 < 0.15:
        claim = rng.choice(["dominant", "dominant", "speed", "normalize"])
        game = rng.choice(SV_GAMES if claim == "normalize" else GAMES)
        c = gen_boundary(rng, claim, game)
        return break_tie(rng, gen_tie(rng, claim, game)) if rng.random() < 0.2 else c
    r = rng.random()
    claim = "dominant" if r < 0.3 else ("speed" if r < 0.8 else "normalize")
    if claim == "normalize":
        game = rng.choice(SV_GAMES)
    elif claim == "speed":
        game = rng.choice(["osu", "osu", "quaver", "quaver", "sm", "bms", "o2jam"])
    else:
        game = rng.choice(GAMES)
    exact = rng.random() < 0.7
    c = gen_chart(rng, tier, game, exact)
    ov = None
    if claim != "dominant":
        q = rng.random()
        if q < 0.4:
            ov = R(g_bpm(rng, exact, [F(b) for _, b in c["bpms"]][:3]))
        elif q < 0.45:
            ov = R(0)
    return dict(claim=claim, game=game, override=ov, **c)


def _c(claim, game, bpms, notes, svs=(), holds=(), override=None, **kw):
    return dict(claim=claim, game=game, bpms=[[R(t), R(b)] for t, b in bpms], notes=[R(t) for t in notes],
                svs=[[R(t), R(x)] for t, x in svs], holds=[[R(t), R(l)] for t, l in holds],
                override=None if override is None else R(override), **kw)


def d28_witness():
    """66 tempo points in a fixed shuffled row order, the last note on the last tempo point (whose bpm differs
    from the one before): with the default (unstable) sort this numpy (AVX-512 argsort) orders the marker row
    before the tempo row - the witness of the repaired finding D28"""
    import random
    bp = [(250 * j, [100, 150, 200][j % 3]) for j in range(66)]
    random.Random(3).shuffle(bp)
    return _c("speed", "sm", bp, [0, 250 * 65])


def corpus():
    c = []
    # D18 witness: unsorted tempo rows, the long interval belongs to the row listed second
    c.append(_c("dominant", "osu", [(1000, 200), (0, 100)], [0, 1500]))
    c.append(_c("normalize", "osu", [(1000, 200), (0, 100)], [0, 1500]))
    c.append(_c("speed", "sm", [(1000, 200), (0, 100)], [0, 1500]))
    # exact tie between totals: any maximiser is right, the code returns the smaller bpm
    c.append(_c("dominant", "bms", [(0, 200), (1000, 100)], [0, 2000]))
    c.append(_c("dominant", "quaver", [(0, 120), (1000, 60), (2000, 120), (2500, 60)], [0, 3500]))
    # tempo point and SV after the last note; SV before the first tempo point; coinciding SVs; SV on a tempo point
    c.append(_c("speed", "osu", [(0, 100), (1000, 200)], [-0 + 0, 2000, 3000], svs=[(-500, 0.5), (1500, 2), (1500, 3)]))
    c.append(_c("speed", "osu", [(0, 100), (1000, 200), (5000, 300)], [0, 1500], svs=[(1000, 0.5), (6000, 2)]))
    c.append(_c("speed", "quaver", [(0, 100), (1000, 200)], [2000, 3000], svs=[(0, 0.5)], override=150))
    c.append(_c("speed", "quaver", [(0, 100)], [0], svs=[]))
    c.append(_c("speed", "o2jam", [(0, 100), (1000, 100), (2000, 50)], [0, 1000, 2000], override=0))
    c.append(_c("normalize", "quaver", [(0, 100), (1000, 37.5), (3000, 480)], [10, 4000], override=240))
    c.append(_c("speed", "sm", [(0, 100), (1000, 200)], [0, 1000]))     # tie at the last offset, 4 rows (stable regime)
    c.append(_c("speed", "osu", [(0, 100), (1000, 200)], [500], holds=[(700, 5000)], svs=[(1000, 2), (800, 0.5)]))
    c.append(d28_witness())
    # histories that leave non-default row labels (seeded change C19-C: label-aligned division in sv_normalize)
    hs = dict(bpms=dict(op="sorted", seed=1, n=1))
    c.append(_c("normalize", "osu", [(0, 100), (1000, 200), (2500, 50)], [0, 3000], hist=hs))
    c.append(_c("normalize", "quaver", [(0, 100), (1000, 200), (2500, 50)], [0, 3000], override=150,
                hist=dict(map=dict(op="rate", by=R(2)))))
    c.append(_c("normalize", "osu", [(0, 100), (1000, 200), (2500, 50)], [0, 3000], svs=[(500, 2)],
                hist=dict(bpms=dict(op="filter", seed=4, n=2), map=dict(op="stack"))))
    c.append(_c("speed", "osu", [(0, 100), (1000, 200), (2500, 50)], [0, 3000], svs=[(500, 2), (1000, 0.5), (2600, 3)],
                hist=dict(bpms=dict(op="append", seed=2, n=1), svs=dict(op="sorted", seed=3, n=1),
                          notes=dict(op="filter", seed=5, n=1), map=dict(op="rate", by=R(Fr(1, 2))))))
    c.append(_c("dominant", "sm", [(0, 100), (1000, 200), (2500, 50)], [0, 3000],
                hist=dict(bpms=dict(op="append", seed=3, n=1), map=dict(op="stack"))))
    # a sorted() list re-timed in place so that the row order is no longer the time order; interleaving sorted
    # pieces joined with append(sort=True)   (seeded change C19-E: sorted() trusting a stale marker)
    for claim, game in (("dominant", "osu"), ("normalize", "quaver"), ("speed", "sm")):
        for sd in (0, 1):
            c.append(_c(claim, game, [(1000, 200), (0, 100), (2500, 50)], [0, 3000],
                        hist=dict(bpms=dict(op="retime", seed=sd, n=1))))
        c.append(_c(claim, game, [(0, 100), (1000, 200), (1500, 100), (6000, 50)], [0, 7000],
                    hist=dict(bpms=dict(op="join", seed=2, n=1))))
    # header fields the routines must not read   (seeded change C19-F: initial_scroll_velocity as the first SV)
    c.append(_c("speed", "quaver", [(0, 100), (1000, 200)], [0, 3000], svs=[(500, 2)],
                meta=dict(initial_scroll_velocity=R(2.5))))
    c.append(_c("speed", "quaver", [(0, 100), (1000, 200)], [0, 3000], svs=[(0, 0.5), (500, 2)],
                meta=dict(initial_scroll_velocity=R(0.5))))
    c.append(_c("speed", "osu", [(0, 100), (1000, 200)], [0, 3000], svs=[(500, 2)],
                meta=dict(slider_multiplier=R(2.5), stack_leniency=R(0.25))))
    # falsy-but-legal boundary values with a unique maximal bpm (seeded change C19-G: `if last_offset` in a helper):
    # tempo points on the negative axis, the last object at exactly 0 / -0.0; first object at 0; one tempo point
    for nz in (False, True):
        for claim, game in (("dominant", "osu"), ("dominant", "bms"), ("normalize", "quaver"), ("speed", "osu"), ("speed", "sm")):
            c.append(_c(claim, game, [(-3000, 100), (-2000, 200)], [-3000, 0], negzero=nz))
            c.append(_c(claim, game, [(-900, 180), (-600, 90), (-500, 60)], [-900, -100, 0], negzero=nz))
            c.append(_c(claim, game, [(0, 100), (1000, 200)], [0, 3000], negzero=nz))
            c.append(_c(claim, game, [(0, 150)], [0], negzero=nz))
            c.append(_c(claim, game, [(-1000, 150)], [-1000, 0], negzero=nz))
        c.append(_c("speed", "quaver", [(-2000, 100), (-500, 200), (0, 50)], [-2000, 0], svs=[(0, 2), (-2000, 0.5)], negzero=nz))
        c.append(_c("speed", "osu", [(-2000, 100), (0, 200)], [-2000, -1000], svs=[(-2500, 2), (0, 0.5)], override=0, negzero=nz))
    # sessions: a call, an edit of the same chart object, the next call (seeded change C19-H: a memoised Stacker
    # that in-place column assignment does not invalidate); every editing route once
    base = dict(bpms=[(0, 100), (1000, 200)], notes=[0, 1500])
    for game in ("osu", "quaver", "sm"):
        for via in SET_VIA:
            c.append(_c("dominant", game, base["bpms"], base["notes"], svs=[(250, 2), (1000, 0.5)] if game in SV_GAMES else [],
                        session=[dict(call="dominant", override=None, copy=0,
                                      edit=dict(op="set", on="hits", col="offset", values=[R(0), R(5000)], via=via))]))
        for via in SHIFT_VIA:
            c.append(_c("speed", game, base["bpms"], [0, 5000], svs=[(250, 2), (1000, 0.5)] if game in SV_GAMES else [],
                        session=[dict(call="speed", override=None, copy=0,
                                      edit=dict(op="shift", on=["hits", "holds"], by=R(7000), via=via)),
                                 dict(call="dominant", override=None, copy=1,
                                      edit=dict(op="shift", on=["bpms"], by=R(-9000), via=via))]))
    c.append(_c("normalize", "osu", base["bpms"], base["notes"], svs=[(250, 2)], session=[
        dict(call="speed", override=R(75), copy=0, edit=dict(op="set", on="bpms", col="bpm", values=[R(200), R(100)], via="prop")),
        dict(call="normalize", override=None, copy=2, edit=dict(op="append", on="hits", rows=[R(9000)], via="append")),
        dict(call="dominant", override=None, copy=0, edit=dict(op="trim", on="hits", side="before", at=R(1500), via="method"))]))
    c.append(_c("speed", "quaver", base["bpms"], base["notes"], svs=[(250, 2)], session=[
        dict(call="normalize", override=None, copy=0, edit=dict(op="append", on="bpms", rows=[[R(1250), R(50)]], via="concat")),
        dict(call="speed", override=R(0), copy=0, edit=dict(op="replace", on="hits", rows=[R(0), R(20000)], via="df")),
        dict(call="dominant", override=None, copy=0, edit=dict(op="shift", on=["bpms", "svs", "hits", "holds"], by=R(-20000), via="stack"))]))
    return c


# ------------------------------------------------------------------------------------------ sessions
#
# A session is a list of steps made BEFORE the case's own call:  step = {call, override, copy, edit}
#   call / override : an analysis call on the chart as it is now (judged like any other call)
#   copy            : 0 the chart object itself, 1 a deepcopy of it (the session goes on with the original),
#                     2 a deepcopy of it (the session goes on with the copy)
#   edit            : what is done to the chart after the call, {op, on, via, ...}:
#       shift   on=[lists]  by=d            offset += d                     via iprop | prop | iloc | setitem | loc | df | list | stack | stackloc
#       set     on=list col values          a whole column gets new values  via prop | iloc | setitem | loc | df | list | stack
#       append  on=list rows                rows added                      via append | append_list | append_sort | concat
#       trim    on=list side at             rows at or before / after `at`  via method | df | list
#       replace on=list rows                a new list                      via list | df
# `via` names the editing route: list property column assignment (in place, same frame), positional / label
# indexers, TimedList.__setitem__, a new frame on the same list object, a new list object, the Stacker.

LISTS = ("bpms", "svs", "hits", "holds")
VCOL = dict(bpms="bpm", svs="multiplier", holds="length", hits=None)
SET_VIA = ("prop", "iloc", "setitem", "loc", "df", "list", "stack", "stackloc")
SHIFT_VIA = ("iprop",) + SET_VIA
APPEND_VIA = ("append", "append_list", "append_sort", "concat")
TRIM_VIA = ("method", "df", "list")
REPLACE_VIA = ("list", "df")
CALLS = ("dominant", "speed", "normalize")


def sim_state(case):
    """the chart's content as plain data (what the edits of a session are planned on; validity only)"""
    sv = case.get("svs", []) if case["game"] in SV_GAMES else []
    return dict(bpms=[(F(t), F(b)) for t, b in case["bpms"]], svs=[(F(t), F(x)) for t, x in sv],
                hits=[F(t) for t in case["notes"]], holds=[(F(t), F(l)) for t, l in case.get("holds", [])])


def _fadd(t, d):
    return Fr(float(t) + float(d))          # what the chart does: a double addition


def _toff(row):
    return row[0] if isinstance(row, tuple) else row


def _with_off(row, t):
    return (t, row[1]) if isinstance(row, tuple) else t


def sim_edit(st, ed):
    """effect of an edit on the plain content; None when the edit does not apply to this content"""
    try:
        st = {k: list(v) for k, v in st.items()}
        op = ed["op"]
        if op == "shift":
            d = F(ed["by"])
            for L in ed["on"]:
                st[L] = [_with_off(r, _fadd(_toff(r), d)) for r in st[L]]
            return st
        L = ed["on"]
        if L not in LISTS:
            return None
        if op == "set":
            vals = [F(v) for v in ed["values"]]
            if len(vals) != len(st[L]) or not vals:
                return None
            if ed["col"] == "offset":
                st[L] = [_with_off(r, v) for r, v in zip(st[L], vals)]
            elif ed["col"] == VCOL[L] and L != "hits":
                st[L] = [(r[0], v) for r, v in zip(st[L], vals)]
            else:
                return None
            return st
        if op in ("append", "replace"):
            rows = [F(r) if L == "hits" else (F(r[0]), F(r[1])) for r in ed["rows"]]
            if not rows:
                return None
            st[L] = (st[L] if op == "append" else []) + rows
            return st
        if op == "trim":
            x = F(ed["at"])
            st[L] = [r for r in st[L] if (_toff(r) <= x if ed["side"] == "before" else _toff(r) >= x)]
            return st
        return None
    except Exception:
        return None


def state_valid(st, game):
    """inside the quantifier of the property: a tempo point at or before the first object, one object, tempo
    points at distinct times, bpm > 0; every number a double"""
    if st is None or not st["bpms"]:
        return False
    ts = [t for t, _ in st["bpms"]]
    if len(set(ts)) != len(ts) or any(b <= 0 for _, b in st["bpms"]):
        return False
    notes = list(st["hits"]) + [t for t, _ in st["holds"]]
    if not notes or min(notes) < min(ts):
        return False
    if any(l < 0 for _, l in st["holds"]) or (st["svs"] and game not in SV_GAMES):
        return False
    nums = ts + [b for _, b in st["bpms"]] + notes + [l for _, l in st["holds"]] + [v for p in st["svs"] for v in p]
    return all(Fr(float(v)) == v and abs(v) < 2 ** 40 for v in nums)


def same_content(st, ct):
    return all(sorted(st[k]) == sorted(ct[k]) for k in LISTS)


def edit_wellformed(ed, game):
    op, via = ed.get("op"), ed.get("via")
    if op == "shift":
        return (via in SHIFT_VIA and isinstance(ed.get("on"), list) and ed["on"] and len(set(ed["on"])) == len(ed["on"])
                and all(L in LISTS and (L != "svs" or game in SV_GAMES) for L in ed["on"]))
    if ed.get("on") not in LISTS or (ed["on"] == "svs" and game not in SV_GAMES):
        return False
    if op == "set":
        return via in SET_VIA and ed.get("col") in ("offset", VCOL[ed["on"]]) and ed.get("col") is not None
    if op == "append":
        return via in APPEND_VIA
    if op == "trim":
        return via in TRIM_VIA and ed.get("side") in ("before", "after")
    if op == "replace":
        return via in REPLACE_VIA
    return False


def session_valid(case):
    steps = case.get("session")
    if steps is None:
        return True
    if not isinstance(steps, list) or len(steps) > 3:
        return False
    game = case["game"]
    st = sim_state(case)
    for step in steps:
        if step.get("call") not in CALLS or (step["call"] == "normalize" and game not in SV_GAMES):
            return False
        ov = step.get("override")
        if ov is not None and (F(ov) < 0 or Fr(float(F(ov))) != F(ov)):
            return False
        if step.get("copy", 0) not in (0, 1, 2):
            return False
        ed = step.get("edit")
        if ed is not None:
            if not edit_wellformed(ed, game):
                return False
            st = sim_edit(st, ed)
            if not state_valid(st, game):
                return False
    return True


def _items(game, L, rows, start=0):
    Map, Bpm, BpmList, Hit, HitList, Hold, HoldList, Sv, SvList = _classes(game)
    kw = dict(keysounds=[]) if game == "quaver" else {}
    if L == "bpms":
        return BpmList, [Bpm(offset=float(t), bpm=float(b)) for t, b in rows]
    if L == "svs":
        return SvList, [Sv(offset=float(t), multiplier=float(x)) for t, x in rows]
    if L == "hits":
        return HitList, [Hit(offset=float(t), column=(start + i) % 4, **kw) for i, t in enumerate(rows)]
    return HoldList, [Hold(offset=float(t), column=(start + i) % 4, length=float(l), **kw) for i, (t, l) in enumerate(rows)]


def _set_col(m, L, col, vals, via, parity=0):
    """assigns a whole column of list `L` of chart `m` through the route `via`"""
    import numpy as np
    lst = getattr(m, L)
    if via in ("prop", "iprop"):                       # list property: self.df[col] = val   (same frame, in place)
        setattr(lst, col, list(vals) if parity % 2 == 0 else np.array(vals, dtype=float))
    elif via == "iloc":
        ci = list(lst.df.columns).index(col)
        for i, v in enumerate(vals):
            lst.iloc[i, ci] = v
    elif via == "setitem":                             # TimedList.__setitem__
        ci = list(lst.df.columns).index(col)
        for i, v in enumerate(vals):
            lst[i, ci] = v
    elif via == "loc":
        lst.loc[:, col] = list(vals)
    elif via == "df":                                  # a new frame on the same list object
        lst.df = lst.df.assign(**{col: list(vals)})
    elif via == "list":                                # a new list object on the chart
        setattr(m, L, type(lst)(lst.df.assign(**{col: list(vals)})))
    elif via == "stack":                               # through the Stacker restricted to this list's class
        s = m.stack((type(lst),))
        s[col] = list(vals)
    elif via == "stackloc":                            # Stacker.loc (conditional indexer of the stacked frame)
        s = m.stack((type(lst),))
        s.loc[:, col] = list(vals)
    else:
        raise ValueError(via)


def apply_edit(m, game, ed):
    """carries an edit out on the chart object through the public API"""
    import pandas as pd
    op, via = ed["op"], ed["via"]
    if op == "shift":
        d = fl(ed["by"])
        present = [L for L in LISTS if hasattr(m, L)]
        if via in ("stack", "stackloc"):
            if sorted(ed["on"]) == sorted(present):
                s = m.stack()
            else:
                s = m.stack(tuple(type(getattr(m, L)) for L in ed["on"]))
            if via == "stack":
                s.offset += d
            else:
                s.loc[s.offset == s.offset, "offset"] += d      # a condition that holds for every row
            return
        for L in ed["on"]:
            lst = getattr(m, L)
            if via == "iprop":
                lst.offset += d
            else:
                _set_col(m, L, "offset", [float(v) + d for v in lst.offset.tolist()], via, parity=len(ed["on"]))
        return
    L = ed["on"]
    lst = getattr(m, L)
    if op == "set":
        _set_col(m, L, ed["col"], [fl(v) for v in ed["values"]], via, parity=len(ed["values"]))
    elif op == "append":
        Cls, items = _items(game, L, [F(r) if L == "hits" else (F(r[0]), F(r[1])) for r in ed["rows"]], start=len(lst))
        if via == "append":
            for it in items:
                lst = lst.append(it)
            setattr(m, L, lst)
        elif via == "append_list":
            setattr(m, L, lst.append(Cls(items)))
        elif via == "append_sort":
            setattr(m, L, lst.append(Cls(items), sort=True))
        else:
            lst.df = pd.concat([lst.df, Cls(items).df], ignore_index=True)
    elif op == "trim":
        x = fl(ed["at"])
        before = ed["side"] == "before"
        if via == "method":
            setattr(m, L, lst.before(x, include_end=True) if before else lst.after(x, include_end=True))
        elif via == "df":
            lst.df = lst.df[lst.df.offset <= x] if before else lst.df[lst.df.offset >= x]
        else:
            setattr(m, L, type(lst)(lst.df[lst.df.offset <= x] if before else lst.df[lst.df.offset >= x]))
    elif op == "replace":
        Cls, items = _items(game, L, [F(r) if L == "hits" else (F(r[0]), F(r[1])) for r in ed["rows"]])
        if via == "list":
            setattr(m, L, Cls(items))
        else:
            lst.df = Cls(items).df
    else:
        raise ValueError(op)


def py_totals(bpms, last):
    """total active time per bpm value (plain Python, only used to steer the generators)"""
    sb = sorted(bpms)
    tot = {}
    for (t, b), nxt in zip(sb, [t for t, _ in sb[1:]] + [last]):
        tot[b] = tot.get(b, Fr(0)) + (nxt - t)
    return tot


def st_last(st):
    return max([t for t, _ in st["bpms"]] + list(st["hits"]) + [t for t, _ in st["holds"]] + [t for t, _ in st["svs"]])


def gen_edit(rng, st, game, exact=True):
    """one edit that keeps the chart inside the quantifier; favours edits that move the first / last object or
    change the tempo list (what an analysis result depends on)"""
    lists = [L for L in LISTS if L != "svs" or game in SV_GAMES]
    last = st_last(st)
    t0 = min(t for t, _ in st["bpms"])
    span = max(last - t0, Fr(1000))
    for _ in range(8):
        k = rng.choice(["extend", "extend", "shorten", "shift", "shift", "rebpm", "rebpm", "retime", "append", "append",
                        "trim", "replace", "remult"])
        ed = None
        if k in ("extend", "shorten") and (st["hits"] or st["holds"]):
            L = "hits" if st["hits"] and (not st["holds"] or rng.random() < 0.8) else "holds"
            offs = [_toff(r) for r in st[L]]
            i = offs.index(max(offs))
            if k == "extend":
                offs[i] = last + rng.choice([Fr(125), Fr(1000), span, 2 * span + 125, 5 * span])
            else:
                offs[i] = t0 + rng.choice([Fr(0), (offs[i] - t0) / 2, (offs[i] - t0) / 4])
                offs[i] = Fr(float(offs[i]))
            ed = dict(op="set", on=L, col="offset", values=[R(v) for v in offs], via=rng.choice(SET_VIA))
        elif k == "shift":
            d = Fr(rng.choice([125, 2000, 10000, 0.5, 333.25])) * rng.choice([1, -1])
            on = rng.choice([lists, lists, ["hits", "holds"], ["bpms"], ["bpms", "svs"] if game in SV_GAMES else ["bpms"],
                             ["svs"] if game in SV_GAMES else ["hits"], ["hits"]])
            if rng.random() < 0.3:                    # a chart moved so that it starts / ends exactly at 0
                d = -(last if rng.random() < 0.5 else t0)
                on = lists
            ed = dict(op="shift", on=list(on), by=R(d), via=rng.choice(SHIFT_VIA))
        elif k == "rebpm":
            vals = [b for _, b in st["bpms"]]
            if rng.random() < 0.5 and len(set(vals)) > 1:
                rng.shuffle(vals)
            else:
                vals = [g_bpm(rng, exact, vals[:2]) for _ in vals]
            ed = dict(op="set", on="bpms", col="bpm", values=[R(Fr(float(v))) for v in vals], via=rng.choice(SET_VIA))
        elif k == "retime" and len(st["bpms"]) > 1:
            ts = [t for t, _ in st["bpms"]]
            if rng.random() < 0.5:
                rng.shuffle(ts)                       # the same times on other rows
            else:
                f = rng.choice([2, Fr(1, 2)])
                ts = [Fr(float(t0 + (t - t0) * f)) for t in ts]
            ed = dict(op="set", on="bpms", col="offset", values=[R(t) for t in ts], via=rng.choice(SET_VIA))
        elif k == "remult" and st["svs"]:
            ed = dict(op="set", on="svs", col="multiplier", values=[R(g_mult(rng, True)) for _ in st["svs"]],
                      via=rng.choice(SET_VIA))
        elif k == "append":
            L = rng.choice(["bpms", "hits", "hits"] + (["svs"] if game in SV_GAMES else []))
            t = last + rng.choice([Fr(125), Fr(1000), span, 3 * span])
            if L == "bpms":
                if rng.random() < 0.4:
                    t = Fr(float(t0 + (last - t0) * Fr(rng.choice([1, 3, 5, 7]), 8) + Fr(1, 8)))
                rows = [[R(t), R(g_bpm(rng, exact, [b for _, b in st["bpms"]][:2]))]]
            elif L == "svs":
                rows = [[R(t), R(g_mult(rng, True))]]
            else:
                rows = [R(t)]
            ed = dict(op="append", on=L, rows=rows, via=rng.choice(APPEND_VIA))
        elif k == "trim":
            L = rng.choice(["hits", "hits", "bpms"] + (["svs"] if game in SV_GAMES else []))
            offs = sorted(_toff(r) for r in st[L])
            if offs:
                x = offs[len(offs) // 2]
                side = "before" if L != "bpms" or rng.random() < 0.5 else "after"
                ed = dict(op="trim", on=L, side=side, at=R(x), via=rng.choice(TRIM_VIA))
        elif k == "replace":
            L = rng.choice(["hits", "bpms"])
            if L == "hits":
                rows = [R(Fr(float(t0 + rng.choice([Fr(0), span / 2, span * 2, Fr(125)])))) for _ in range(rng.choice([1, 2, 3]))]
            else:
                n = rng.choice([1, 2, 3])
                rows = [[R(Fr(float(t0 - 250 + 500 * j))), R(g_bpm(rng, exact, []))] for j in range(n)]
                rows[0][0] = R(t0 - rng.choice([0, 250]))
            ed = dict(op="replace", on=L, rows=rows, via=rng.choice(REPLACE_VIA))
        if ed is None or not edit_wellformed(ed, game):
            continue
        nst = sim_edit(st, ed)
        if state_valid(nst, game):
            return ed, nst
    return None, st


def gen_session(rng, c, game, exact=True):
    """1-3 (call, edit) steps before the case's own call"""
    st = sim_state(c)
    steps = []
    for _ in range(rng.choice([1, 1, 2, 2, 3])):
        call = rng.choice(["dominant", "speed", "normalize"] if game in SV_GAMES else ["dominant", "speed"])
        ov = None
        if call != "dominant":
            q = rng.random()
            if q < 0.35:
                ov = R(g_bpm(rng, True, [b for _, b in st["bpms"]][:3]))
            elif q < 0.4:
                ov = R(0)
        ed, st = gen_edit(rng, st, game, exact)
        steps.append(dict(call=call, override=ov, copy=rng.choice([0, 0, 0, 0, 0, 1, 2]), edit=ed))
    return steps


# ------------------------------------------------------------------------------------------ run

def content(m, game):
    """the chart's CURRENT content, read through the plain list API (never through m.stack()): what every call
    is judged against. Rows in the lists' row order."""
    bp = [(Fr(float(o)), Fr(float(b))) for o, b in zip(m.bpms.offset.tolist(), m.bpms.bpm.tolist())]
    sv = []
    if game in SV_GAMES:
        sv = [(Fr(float(o)), Fr(float(x))) for o, x in zip(m.svs.offset.tolist(), m.svs.multiplier.tolist())]
    hits = [Fr(float(o)) for o in m.hits.offset.tolist()]
    holds = [(Fr(float(o)), Fr(float(l))) for o, l in zip(m.holds.offset.tolist(), m.holds.length.tolist())]
    return dict(bpms=bp, svs=sv, hits=hits, holds=holds)


def jc_of(ct, game, override, drv):
    """model / spec input of one call: the chart's current content + the override of that call; first / last
    object are `Chart.bounds` of the Lean model (least / greatest offset of what m.stack() ranges over)"""
    ts = [t for t, _ in ct["bpms"]] + list(ct["hits"]) + [t for t, _ in ct["holds"]] + [t for t, _ in ct["svs"]]
    b = drv.call("c19.bounds", has_sv=game in SV_GAMES, bpms=[[R(t), R(x)] for t, x in ct["bpms"]],
                 svs=[[R(t), R(x)] for t, x in ct["svs"]], notes=[R(t) for t in list(ct["hits"]) + [t for t, _ in ct["holds"]]])
    if "ok" not in b or [F(b["ok"][0]), F(b["ok"][1])] != [min(ts), max(ts)]:
        raise AssertionError(f"Chart.bounds {b} vs {min(ts)}, {max(ts)}")
    small = all(t.denominator <= 8 and abs(t) < 2 ** 30 for t in
                [t for t, _ in ct["bpms"]] + list(ct["hits"]) + [t for t, _ in ct["holds"]] + [t for t, _ in ct["svs"]])
    return dict(bpms=[[R(t), R(b)] for t, b in ct["bpms"]], svs=[[R(t), R(x)] for t, x in ct["svs"]],
                omin=R(min(ts)), omax=R(max(ts)), last=R(max(ts)), override=override, has_sv=game in SV_GAMES,
                exact_stream=small)


def run(case, drv):
    """builds the chart through its history, then makes the calls of the session (an analysis call, an edit of the
    same chart object, the next call, ...; a case without `session` is a single call). EVERY call is judged by the
    Lean specification against the chart's content at that moment."""
    import copy
    warnings.simplefilter("ignore")
    m = build_map(case)
    game = case["game"]
    tags = base_tags(case, None)
    tags += [f"labels:{x}" for x in labels_nondefault(m)] + ([] if m._c19_rows["as_planned"] else ["end-state-reordered"])
    if case.get("negzero"):
        tags.append("negative-zero")
    steps = case.get("session") or []
    results = []
    st = content(m, game)          # row order as in the chart (a history may have re-ordered the rows of the case)
    for k, step in enumerate(steps):
        target = m
        cp = step.get("copy", 0)
        if cp == 2:
            m = copy.deepcopy(m)
            target = m
        elif cp == 1:
            target = copy.deepcopy(m)
        if cp:
            tags.append(f"call-on-deepcopy:{cp}")
        results.append(judge(step["call"], target, game, step.get("override"), drv))
        ed = step.get("edit")
        if ed:
            apply_edit(m, game, ed)
            tags.append(f"edit:{ed['op']}:{ed.get('on', 'all')}:{ed['via']}")
            st = sim_edit(st, ed)
            if st is None or not same_content(st, content(m, game)):
                tags.append("edit-diverged")          # the harness' own bookkeeping; the judge reads the chart itself
                st = {k2: list(v) for k2, v in content(m, game).items()}
    results.append(judge(case["claim"], m, game, case.get("override"), drv))
    if steps:
        tags.append(f"session:{len(results)}-calls")
        kinds = sorted({r["claim"] for r in results})
        tags.append("session-mix:" + "+".join(kinds))
    return combine(results, tags)


def combine(results, tags):
    bad = [(k, r) for k, r in enumerate(results) if not (r["ok"] and r["agree"])]
    viol = [(k, r) for k, r in bad if not r["ok"]]
    k, first = (viol or bad or [(len(results) - 1, results[-1])])[0]
    out = dict(claim=first["claim"], ok=all(r["ok"] for r in results), agree=all(r["agree"] for r in results),
               dom=first["dom"] if bad else all(r["dom"] for r in results), kf=first.get("kf"),
               tags=sorted(set(tags) | {t for r in results for t in r["tags"]}),
               nontrivial=any(r["nontrivial"] for r in results), maxdev=max(r["maxdev"] for r in results),
               boundary=any(r["boundary"] for r in results), detail={})
    if bad:
        out["detail"] = dict(first["detail"], call_index=k, calls=len(results))
    return out


def judge(claim, m, game, override, drv):
    ct = content(m, game)
    jc = jc_of(ct, game, override, drv)
    tags = []
    ts = sorted(F(t) for t, _ in jc["bpms"])
    if F(jc["omax"]) == 0:
        tags.append("last-object-at-0")
    if F(jc["omin"]) == 0:
        tags.append("first-object-at-0")
    if ts and ts[-1] < 0:
        tags.append("tempo-all-negative")
    if ts and ts[-1] == F(jc["omax"]):
        tags.append("last-object-on-tempo-point")
    r = dict(dominant=judge_dominant, speed=judge_speed, normalize=judge_normalize)[claim](m, jc, game, drv)
    r["tags"] = tags + r["tags"]
    return r


def base_tags(case, jc):
    n = len(case["bpms"])
    tags = [case["game"], "n1" if n == 1 else ("n2-16" if n <= 16 else ("n17-64" if n <= 64 else "n65+")),
            "exact-stream" if exact_stream(case) else "float-stream"]
    if sorted(case["bpms"], key=lambda p: F(p[0])) != case["bpms"]:
        tags.append("unsorted-rows")
    for key, op in (case.get("hist") or {}).items():
        if op:
            tags.append(f"hist-{key}:{op['op']}")
    for name in (case.get("meta") or {}):
        tags.append(f"meta:{name}")
    return tags


def domain(jc, drv):
    d = drv.call("c19.dom", bpms=jc["bpms"], omax=jc["omax"])["ok"]
    return d


def admissible_refs(drv, jc):
    """reference bpms the specification admits (`Spec.refSet`); off the exact stream a total within the float
    tolerance of the maximum counts as maximal too (the code sums doubles). Returns (refs, near_tie, exact refs)."""
    exact = [F(x) for x in drv.call("c19.refs", bpms=jc["bpms"], last=jc["last"], override=jc["override"])["ok"]]
    if (jc["override"] is not None and F(jc["override"]) != 0) or jc["exact_stream"]:
        return exact, False, exact
    sp = drv.call("c19.dominant_spec", bpms=jc["bpms"], last=jc["last"])["ok"]
    totals = [(F(k), F(v)) for k, v in sp["totals"]]
    if not totals:
        return exact, False, exact
    best = max(v for _, v in totals)
    tol = TOL * (1 + abs(best))
    refs = [k for k, v in totals if best - v <= tol]
    return refs, len(refs) > len(exact), exact


def stack_bounds_agree(m, jc):
    s = m.stack()
    return Fr(float(s.offset.min())) == F(jc["omin"]) and Fr(float(s.offset.max())) == F(jc["omax"])


def judge_dominant(m, jc, game, drv):
    from reamber.algorithms.utils import dominant_bpm
    tags = []
    try:
        impl = ("ok", to_fr(dominant_bpm(m)))
    except Exception as e:
        impl = ("err", err_class(e))
    mo = drv.call("c19.dominant", bpms=jc["bpms"], last=jc["last"])
    sp = drv.call("c19.dominant_spec", bpms=jc["bpms"], last=jc["last"])["ok"]
    d = domain(jc, drv)
    in_dom = d["tempo_ok"] and d["last_ok"]
    totals = {F(k): F(v) for k, v in sp["totals"]}
    best = max(totals.values()) if totals else Fr(0)
    tol = TOL * (1 + abs(best))
    ok, agree, boundary, maxdev, detail = True, True, False, 0.0, {}
    agree = stack_bounds_agree(m, jc)
    if impl[0] == "err":
        ok = not in_dom
        agree = agree and ("err" in mo) and mo["err"] == impl[1]
        tags.append("impl-raises")
    else:
        v = impl[1]
        if v is None or v not in totals:
            ok = False
        else:
            exact = drv.call("c19.is_dominant", bpms=jc["bpms"], last=jc["last"], v=R(v))["ok"]
            if not exact:
                if best - totals[v] <= tol:
                    boundary = True
                else:
                    ok = False
        if "ok" not in mo:
            agree = False
        elif F(mo["ok"]) != v:
            if v in totals and abs(totals[v] - totals[F(mo["ok"])]) <= tol and not jc["exact_stream"]:
                boundary = True
            else:
                agree = False
    if not (ok and agree):
        detail = dict(impl=str(impl), model=mo, spec=sp, content=dict(bpms=jc["bpms"], last=jc["last"]))
    if len(sp["set"]) > 1:
        tags.append("tied-totals")
    else:
        tags.append("unique-maximum")
    return dict(claim="dominant", ok=ok, agree=agree, dom=in_dom, kf=None, tags=tags,
                nontrivial=len(totals) >= 2, maxdev=maxdev, boundary=boundary, detail=detail)


def judge_normalize(m, jc, game, drv):
    from reamber.algorithms.generate.sv_normalize import sv_normalize
    tags = ["override" if jc["override"] is not None else "dominant-ref"]
    ov = None if jc["override"] is None else float(F(jc["override"]))
    try:
        out = sv_normalize(m) if ov is None else sv_normalize(m, ov)
        df = out.df
        impl = ("ok", [[to_fr(a), to_fr(b)] for a, b in zip(df["offset"].tolist(), df["multiplier"].tolist())],
                type(out).__name__)
    except Exception as e:
        impl = ("err", err_class(e))
    mo = drv.call("c19.sv_normalize", bpms=jc["bpms"], last=jc["last"], override=jc["override"])
    refs, near_tie, exact_refs = admissible_refs(drv, jc)
    d = domain(jc, drv)
    in_dom = d["tempo_ok"] and d["last_ok"] and not (jc["override"] is not None and F(jc["override"]) == 0)
    ok, agree, maxdev, detail = True, stack_bounds_agree(m, jc), 0.0, {}
    if impl[0] == "err":
        ok = not in_dom
        agree = agree and "err" in mo and mo["err"] == impl[1]
    else:
        rows = impl[1]
        if any(a is None or b is None for a, b in rows):
            ok = False
        else:
            # the statement names no order: evaluate the relation on both lists ordered by time
            sb = sorted(jc["bpms"], key=lambda p: F(p[0]))
            so = sorted(rows, key=lambda p: p[0])
            ok = False
            for ref in refs:
                ck = drv.call("c19.sv_norm_check", bpms=sb, ref=R(ref), out=[[R(a), R(b)] for a, b in so])["ok"]
                if ck["length_ok"] and ck["times_ok"] and all(close(F(p), ref) for p in ck["products"]):
                    ok = True
                    maxdev = max([dev(F(p), ref) for p in ck["products"]] + [0.0])
                    break
            expect_cls = {"osu": "OsuSvList", "quaver": "QuaSvList"}[game]
            if impl[2] != expect_cls:
                ok = False
        if "ok" not in mo or len(mo["ok"]) != len(rows):
            agree = False
        elif ok and not near_tie:
            for (a, b), (ma, mb) in zip(rows, mo["ok"]):
                if a != F(ma) or not close(b, F(mb)):
                    # a different maximiser of an exact tie is a legitimate reference too (spec: any)
                    agree = False
    if len(exact_refs) == 1 and jc["override"] is None:
        tags.append("unique-maximum")
    if not (ok and agree):
        detail = dict(impl=str(impl)[:1500], model=mo, refs=[str(r) for r in refs],
                      content=dict(bpms=jc["bpms"], last=jc["last"], override=jc["override"]))
    return dict(claim="normalize", ok=ok, agree=agree, dom=in_dom, kf=None, tags=tags, boundary=near_tie,
                nontrivial=len({F(b) for _, b in jc["bpms"]}) >= 2, maxdev=maxdev, detail=detail)


def _speed_eval(drv, jc, ref, rows):
    """rows: [(t, s|None)] -> (breakpoints_ok, [row passes], maxdev)"""
    ck = drv.call("c19.speed_check", has_sv=jc["has_sv"], bpms=jc["bpms"], svs=jc["svs"], omin=jc["omin"], omax=jc["omax"],
                  ref=R(ref), out=[[R(t), None if s is None else R(s)] for t, s in rows])["ok"]
    passes, md = [], 0.0
    for (t, s), r in zip(rows, ck["rows"]):
        if r["silent"]:
            passes.append(True)
        elif s is None or r["nearest"] is None:
            passes.append(False)
        else:
            passes.append(close(s, F(r["nearest"])))
            if passes[-1]:
                md = max(md, dev(s, F(r["nearest"])))
    return ck["breakpoints_ok"], passes, md, ck


def judge_speed(m, jc, game, drv):
    from reamber.algorithms.analysis.scroll_speed import scroll_speed
    tags = ["override" if jc["override"] is not None else "dominant-ref", "has-sv" if jc["has_sv"] else "no-sv"]
    ov = None if jc["override"] is None else float(F(jc["override"]))
    try:
        s = scroll_speed(m) if ov is None else scroll_speed(m, ov)
        impl = ("ok", [(to_fr(t), to_fr(v)) for t, v in zip(s.index.tolist(), s.tolist())])
    except Exception as e:
        impl = ("err", err_class(e))
    mo = drv.call("c19.scroll_speed", has_sv=jc["has_sv"], bpms=jc["bpms"], svs=jc["svs"], omin=jc["omin"], omax=jc["omax"],
                  override=jc["override"])
    refs, near_tie, exact_refs = admissible_refs(drv, jc)
    d = domain(jc, drv)
    in_dom = (d["tempo_ok"] and d["last_ok"]
              and not (jc["override"] is not None and F(jc["override"]) == 0))
    ok, agree, maxdev, detail, kf = True, stack_bounds_agree(m, jc), 0.0, {}, None
    if d["tie_at_max"]:
        tags.append("tie-at-last-offset")
    if len(exact_refs) == 1 and (jc["override"] is None or F(jc["override"]) == 0):
        tags.append("unique-maximum")
    if impl[0] == "err":
        ok = not (d["tempo_ok"] and d["last_ok"])
        agree = agree and "err" in mo and mo["err"] == impl[1]
    else:
        rows = impl[1]
        omax = F(jc["omax"])
        ok = False
        last_ck = None
        for ref in refs:
            bok, passes, md, last_ck = _speed_eval(drv, jc, ref, rows)
            if bok and all(passes):
                ok, maxdev = True, md
                break
        if not ok and d["tie_at_max"]:
            # the shape of the repaired finding D28 (tagged only; a fixed finding suppresses nothing): the only
            # wrong rows sit at the last offset next to a right one
            for ref in refs:
                bok, passes, md, _ = _speed_eval(drv, jc, ref, rows)
                bad = [i for i, p in enumerate(passes) if not p]
                good_at_max = [i for i, p in enumerate(passes) if p and rows[i][0] == omax]
                if bok and bad and all(rows[i][0] == omax for i in bad) and good_at_max:
                    tags.append("spurious-row-at-last-offset")
                    break
        if "ok" not in mo:
            agree = False
        else:
            if d["tempo_ok"] and d["last_ok"] and exact_refs:
                # the model's own output must satisfy the executable specification exactly (theorem
                # scroll_speed_spec, re-checked on the concrete input; model uses the smallest maximiser / the override)
                mck = drv.call("c19.speed_check", has_sv=jc["has_sv"], bpms=jc["bpms"], svs=jc["svs"], omin=jc["omin"],
                               omax=jc["omax"], ref=R(exact_refs[0]), out=mo["ok"])["ok"]
                if not mck["exact"]:
                    agree = False
                    tags.append("model-breaks-spec")
            a = sorted(rows, key=lambda r: (r[0], Fr(-1) if r[1] is None else r[1]))
            b = sorted([(F(t), None if v is None else F(v)) for t, v in mo["ok"]], key=lambda r: (r[0], Fr(-1) if r[1] is None else r[1]))
            if len(a) != len(b):
                agree = False
            elif not near_tie:
                for (t1, v1), (t2, v2) in zip(a, b):
                    if t1 != t2 or (v1 is None) != (v2 is None) or (v1 is not None and not close(v1, v2)):
                        agree = False
        if not (ok and agree):
            detail = dict(impl=[(str(t), str(v)) for t, v in rows][:200], model=mo, refs=[str(r) for r in refs],
                          check=last_ck, content=dict(bpms=jc["bpms"], svs=jc["svs"], omin=jc["omin"], omax=jc["omax"],
                                                      override=jc["override"]))
    sv_in_force = jc["has_sv"] and any(F(t) >= min(F(p[0]) for p in jc["bpms"]) for t, _ in jc["svs"])
    nontrivial = len({F(b) for _, b in jc["bpms"]}) >= 2 or sv_in_force
    return dict(claim="speed", ok=ok, agree=agree, dom=in_dom, kf=kf, tags=tags, nontrivial=nontrivial, maxdev=maxdev,
                boundary=near_tie, detail=detail)
