"""C02 — StepMania reading places every object at the time its beat and tempos imply.

Correspondence: `SMMapSet.read(text)` against `Model/SM.lean: read` (driver op `c02.read`).
Specification: `Spec/SM.lean: denote` (MSD automaton + row formula + latest-unclosed-head pairing) with times
from `Spec/Timing.lean: timeAt`, evaluated by the driver (`c02.denote`) and compared with the implementation's
output (columns, kinds, millisecond positions, hold lengths, the five chart header fields, tempo points).
"""
import logging
import math
from fractions import Fraction as Fr

from lib.rat import R, F, close, dev

ID = "C02"
QUICK_N = 1200
THOROUGH_N = 10000
QUICK_BUDGET_S = 80
THOROUGH_BUDGET_S = 900
RULE = ("generated .sm texts: 1-4 charts of every keyed chart type (and unkeyed ones), 1-6 measures with "
        "R in {4,8,12,16,24,32,48,64,96,192} and {20,28,36,40,44,52,60,100} rows (non-multiples of 4 on an out-of-domain stream), symbols 1 2 3 4 M L F K "
        "(well-bracketed per column on the main stream, arbitrary on a side stream), comment and blank lines, "
        "1-5 tempo changes on 1/16-beat decimals (other decimals out of domain), #OFFSET of both signs, "
        "shuffled string tags, rows wider than the library's key table (dance-couple 8 columns, +1/2/4 columns), a quarter of the cases through read_file on LF / CRLF / bare-CR files, a fifth of the rest through read(list of lines), an 'exotic' stream with FF VT FS GS RS NEL U+2028 U+2029 (line boundaries of str.splitlines() only), Unicode whitespace, zero-width / BOM / astral characters inside // comments between rows and header lines and inside / at the ends of header values and chart header fields, each text through read(str), read(list) and read_file which must all agree with the model and the denotation, malformed texts compared on the error class; non-trivial = at least one tempo change "
        "after beat 0 with an object behind it, or a hold/roll, or >= 2 charts")
ASSUMPTIONS = [
    "numbers in the text follow [ws][+-]digits[.digits][e[+-]digits][ws] (Python's inf/nan/1_0 forms are outside the model)",
    "tempos are positive; #OFFSET and #BPMS precede #STOPS (StepMania's own order); a non-empty #STOPS is outside the model",
    "rows are not indented and blank lines are empty on the main stream (the reader does not trim rows)",
    "tag names are upper case (the reader is case-sensitive)",
]
TRUSTED_EXTRA = ["Python str.split/strip/float/int as modelled in Model/SM.lean (K3 lexing)"]

KEYED = {"dance-single": 4, "dance-double": 8, "dance-solo": 6, "dance-couple": 4, "dance-threepanel": 3,
         "dance-routine": 8, "kb7-single": 7}
UNKEYED = {"pump-single": 5, "pump-double": 10, "bm-single7": 8, "pnm-nine": 9, "techno-single8": 8,
           "kickbox-human": 4, "ez2-real": 7, "maniax-double": 8}
ROWS_OK = [4, 4, 4, 8, 8, 12, 16, 16, 24, 32, 48, 64, 96, 192,
           20, 28, 36, 40, 44, 52, 60, 100]      # multiples of 4 whose rows-per-beat do not divide 96
ROWS_BAD = [1, 2, 3, 5, 6, 7, 9, 10, 14]
E_BPMS = ["120", "120.000", "60", "150.0", "75", "240", "100", "200.000", "125", "187.5", "93.75", "300", "480", "50"]
STR_TAGS = ["TITLE", "SUBTITLE", "ARTIST", "TITLETRANSLIT", "SUBTITLETRANSLIT", "ARTISTTRANSLIT", "GENRE", "CREDIT",
            "BANNER", "BACKGROUND", "LYRICSPATH", "CDTITLE", "MUSIC", "DISPLAYBPM", "BGCHANGES", "FGCHANGES"]
ATTR = dict(TITLE="title", SUBTITLE="subtitle", ARTIST="artist", TITLETRANSLIT="title_translit",
            SUBTITLETRANSLIT="subtitle_translit", ARTISTTRANSLIT="artist_translit", GENRE="genre", CREDIT="credit",
            BANNER="banner", BACKGROUND="background", LYRICSPATH="lyrics_path", CDTITLE="cd_title", MUSIC="music",
            DISPLAYBPM="display_bpm", BGCHANGES="bg_changes", FGCHANGES="fg_changes")
WORDS = ["Song", "a b", "Ünï", "日本", "x-1", "mix (v2)", "", "A", "file.ogg", "bg.png", "120", "Hard", "Edit", "the end."]
DIFFS = ["Beginner", "Easy", "Medium", "Hard", "Challenge", "Edit"]
TAPS = "1MLFK"
EOLS = dict(lf="\n", crlf="\r\n", cr="\r")
# characters that are line boundaries for str.splitlines() but not line ends of a .sm text (only \n, and \r / \r\n in
# a file, end a line), and other non-ASCII: whitespace for str.strip(), format characters, an astral character
ODD_BREAKS = ["\x0b", "\x0c", "\x1c", "\x1d", "\x1e", "\x85", "\u2028", "\u2029"]
ODD_OTHER = ["\xa0", "\u3000", "\u200b", "\ufeff", "\u00e9", "\u65e5\u672c", "\U0001d11e", "\x1f", "\t"]
ENTRIES = ("str", "list", "file")
# the columns of a chart are the characters of its rows; for these types the library's key table is narrower than the rows
WIDTH = dict(KEYED, **{"dance-couple": 8})


# ------------------------------------------------------------------------------------------ rendering

def render_chart(c):
    fields = [c["type"], c["desc"], c["diff"], c["meter"]] + ([c["radar"]] if c["radar"] is not None else [])
    head = "#NOTES:\n" + "".join("     %s:\n" % f for f in fields)
    ms = ["\n".join(m) for m in c["measures"]]
    if c.get("sm_style"):
        body = ms[0] if ms else ""
        for i, m in enumerate(ms[1:], 2):
            body += "\n,  // measure %d\n" % i + m
    else:
        body = "\n,\n".join(ms)
    pre = ("//---------------%s - %s----------------\n" % (c["type"], c["desc"])) if c.get("banner") else ""
    return pre + head + body + "\n;"


def render(case):
    if "text" in case:
        return case["text"]
    out = []
    for it in case["items"]:
        k = it[0]
        if k == "tag":
            out.append("#%s:%s;" % (it[1], it[2]))
        elif k == "bpms":
            out.append("#BPMS:" + it[2].join("%s=%s" % (b, v) for b, v in it[1]) + ";")
        elif k == "comment":
            out.append("//" + it[1])
        elif k == "chart":
            out.append(render_chart(it[1]))
        elif k == "raw":
            out.append(it[1])
    return "\n".join(out) + "\n"


# ------------------------------------------------------------------------------------------ generators

def gen_rows(rng, keys, nrows, state, bracketed, last):
    """rows of one measure; `state` = per-column open head flag (main stream keeps columns well-bracketed)"""
    rows = []
    dens = rng.choice([0.08, 0.2, 0.4])
    for r in range(nrows):
        row = []
        for c in range(keys):
            if not bracketed:
                row.append(rng.choice("0000000123" + "4MLFK") if rng.random() < dens * 2 else "0")
                continue
            if state[c]:
                x = rng.random()
                if x < 0.25 or (last and r == nrows - 1):
                    row.append("3")
                    state[c] = False
                elif x < 0.3:
                    row.append("M")
                else:
                    row.append("0")
            else:
                x = rng.random()
                if x > dens:
                    row.append("0")
                elif x < dens * 0.25 and not (last and r == nrows - 1):
                    row.append(rng.choice("24"))
                    state[c] = True
                else:
                    row.append(rng.choice("1111" + TAPS))
        rows.append("".join(row))
    return rows


def decorate(rng, rows, p):
    """insert comment lines and blank lines between rows"""
    out = []
    for r in rows:
        x = rng.random()
        if x < p:
            out.append(rng.choice(["// c", "//", "  // note 3", "// 1000", "//0100 x"]))
        elif x < 2 * p:
            out.append("")
        out.append(r)
    if rng.random() < p:
        out.append("")
    return out


def gen_chart(rng, stream, small):
    if rng.random() < 0.8:
        typ = rng.choice(sorted(KEYED))
        keys = WIDTH[typ]
        if rng.random() < 0.1:
            keys = min(18, keys + rng.choice([1, 2, 4]))      # rows wider than the table's key count
    else:
        typ = rng.choice(sorted(UNKEYED))
        keys = UNKEYED[typ]
    nm = rng.choice([1, 1, 2, 3, 4, 6] if not small else [1, 2])
    state = [False] * keys
    measures = []
    bracketed = stream != "unbracketed"
    for m in range(nm):
        if stream == "badrows" and rng.random() < 0.6:
            n = rng.choice(ROWS_BAD)
        else:
            n = rng.choice(ROWS_OK if not small else [4, 8, 12, 16, 20, 28, 44])
        rows = gen_rows(rng, keys, n, state, bracketed, last=(m == nm - 1))
        measures.append(decorate(rng, rows, rng.choice([0, 0, 0.05, 0.2])))
    return dict(type=typ, desc=rng.choice(WORDS), diff=rng.choice(DIFFS), meter=str(rng.choice([1, 5, 12, 0, 99])),
                radar=rng.choice(["0,0,0,0,0", "0.000,0.000,0.000,0.000,0.000", "0.5,1,0.25,0,0.125", "1"]),
                measures=measures, sm_style=rng.random() < 0.3, banner=rng.random() < 0.3)


def dec16(rng, k):
    """decimal text of k/16 in one of the spellings a file may use"""
    q = Fr(k, 16)
    s = "%.4f" % float(q)
    x = rng.random()
    if x < 0.4:
        return s.rstrip("0").rstrip(".") if "." in s else s
    if x < 0.7:
        return s
    return s.rstrip("0") + ("0" if s.rstrip("0").endswith(".") else "")


def gen_bpms(rng, stream, total_beats):
    exact = rng.random() < 0.65      # (E) stream: every beat length dyadic, the tempo list is compared for equality
    n = rng.choice([1, 1, 2, 2, 3, 4, 5])
    ks = sorted(rng.sample(range(1, max(2, total_beats * 16)), min(n - 1, max(0, total_beats * 16 - 2))))
    # prefer musically plausible positions: half of the changes on whole or half beats
    ks = [k - k % rng.choice([1, 2, 4, 8, 16, 64]) or k for k in ks]
    ks = sorted(set(k for k in ks if k > 0))
    pairs = [("0.000" if rng.random() < 0.5 else "0", bpm_text(rng, exact))]
    for k in ks:
        if stream == "offgrid" and rng.random() < 0.7:
            # (not 0.001: that is exactly the reseating threshold, where doubles and rationals may differ)
            b = "%.4f" % (k / 16 + rng.choice([0.0004, 0.002, 0.01, 0.033, 0.1, 0.3]))
        else:
            b = dec16(rng, k)
        pairs.append((b, bpm_text(rng, exact)))
    if rng.random() < 0.15:
        rng.shuffle(pairs)      # unordered #BPMS: the reader sorts
    return pairs


def bpm_text(rng, exact=False):
    x = rng.random()
    if exact or x < 0.4:
        return rng.choice(E_BPMS)
    if x < 0.9:
        return "%.3f" % rng.uniform(30, 400)
    return repr(round(rng.uniform(30, 400), rng.choice([1, 2, 6])))


def gen(rng, tier, i):
    x = rng.random()
    stream = "main"
    if x > 0.70:
        stream = rng.choice(["badrows", "offgrid", "unbracketed", "errors", "nostops", "comments", "exotic", "exotic"])
    small = tier == "quick" and rng.random() < 0.6
    ncharts = rng.choice([1, 1, 1, 2, 2, 3, 4]) if not small else rng.choice([1, 1, 2])
    charts = [gen_chart(rng, stream, small) for _ in range(ncharts)]
    total_beats = 4 * max(len(c["measures"]) for c in charts)
    items = []
    tags = rng.sample(STR_TAGS, rng.randint(0, len(STR_TAGS)))
    for t in tags:
        items.append(["tag", t, rng.choice(WORDS)])
    if rng.random() < 0.3:
        items.append(["tag", "FOO", "bar"])
    if rng.random() < 0.3:
        items.insert(rng.randint(0, len(items)), ["comment", rng.choice([" generated", "", " by hand"])])
    timing = [["tag", "OFFSET", rng.choice(["0", "0.000", "-0.5", "0.25", "1.234", "-12.0625", "%.3f" % rng.uniform(-3, 3)])],
              ["bpms", gen_bpms(rng, stream, total_beats), rng.choice([",", ",\n", ",\n"])]]
    if stream != "nostops":
        timing.append(["tag", "STOPS", rng.choice(["", "", "\n"])])
    for t in ["SAMPLESTART", "SAMPLELENGTH"]:
        if rng.random() < 0.6:
            timing.append(["tag", t, rng.choice(["0.000", "12.5", "30", "100.125"])])
    if rng.random() < 0.6:
        timing.append(["tag", "SELECTABLE", rng.choice(["YES", "YES", "NO", "yes"])])
    pos = rng.randint(0, len(items))
    items[pos:pos] = timing
    for c in charts:
        items.append(["chart", c])
    case = dict(claim="read", stream=stream, items=items)
    if rng.random() < 0.25:
        case["eol"] = rng.choice(["lf", "crlf", "cr"])
    if stream == "errors":
        damage(rng, case)
    if stream == "comments":
        risky(rng, case)
    if stream == "exotic":
        exotic(rng, case)
    elif "eol" not in case and rng.random() < 0.2:
        case["entry"] = "list"           # SMMapSet.read(list of lines)
    return case


def damage(rng, case):
    """malformed texts: compared on the error class only"""
    k = rng.choice(["nobpms", "badnum", "shortnotes", "firstbpm", "badmeter", "tail", "unclosed", "nooffset", "eq"])
    items = case["items"]
    charts = [it[1] for it in items if it[0] == "chart"]
    if k == "nobpms":
        case["items"] = [it for it in items if it[0] != "bpms"]
    elif k == "badnum":
        for it in items:
            if it[0] == "tag" and it[1] == "OFFSET":
                it[2] = rng.choice(["abc", "", "1.2.3", "--1", "1e"])
    elif k == "shortnotes":
        charts[0]["radar"] = None
    elif k == "firstbpm":
        for it in items:
            if it[0] == "bpms":
                it[1][:] = [(b, v) for b, v in it[1] if b not in ("0", "0.000")] or [("1.000", "120")]
    elif k == "badmeter":
        charts[0]["meter"] = rng.choice(["5.0", "x", ""])
    elif k == "tail":
        m = charts[0]["measures"][0]
        m.insert(0, "3" + "0" * 3)
    elif k == "unclosed":
        m = charts[-1]["measures"][-1]
        m.append("2" + "0" * 3)
    elif k == "nooffset":
        case["items"] = [it for it in items if not (it[0] == "tag" and it[1] == "OFFSET")]
        # keep at least one object so that the missing offset is used
        charts[0]["measures"][0].insert(0, "1000")
    elif k == "eq":
        for it in items:
            if it[0] == "bpms":
                it[1].append(("4=5", "6"))
    case["damage"] = k


def risky(rng, case):
    """comments whose text contains ; : , or that share a line with a row (legal MSD, mis-parsed by the reader)"""
    charts = [it[1] for it in case["items"] if it[0] == "chart"]
    c = rng.choice(charts)
    m = rng.choice(c["measures"])
    k = rng.choice(["colon", "comma", "semi", "trailing"])
    pos = rng.randint(0, len(m))
    if k == "colon":
        m.insert(pos, "// note: here")
    elif k == "comma":
        m.insert(pos, "// a, b")
    elif k == "semi":
        m.insert(pos, "// end; of part")
    else:
        rows = [j for j, l in enumerate(m) if l and "//" not in l]
        if rows:
            j = rng.choice(rows)
            m[j] = m[j] + " // x"
        else:
            m.insert(pos, "// a, b")


def odd_text(rng, inner=True):
    """a few words with one to three of the odd characters between / around them"""
    ws = [rng.choice(["a", "b2", "Song", "x y", "1000", "0100"]) for _ in range(rng.randint(1, 3))]
    out = ws[0]
    for w in ws[1:]:
        out += rng.choice(ODD_BREAKS if rng.random() < 0.7 else ODD_OTHER) + w
    x = rng.random()
    if len(ws) == 1 or x < 0.3:
        ch = rng.choice(ODD_BREAKS + ODD_OTHER)
        k = rng.choice(["pre", "post", "mid"] if inner else ["mid"])
        out = ch + out if k == "pre" else out + ch if k == "post" else out[:1] + ch + out[1:]
    return out


def exotic(rng, case):
    """odd characters (line boundaries of str.splitlines() that are not .sm line ends, Unicode whitespace, format and
    astral characters) inside `//` comments between the rows of a chart and between the header lines, inside and at
    the ends of header values and chart header fields (rows themselves stay bare: the reader does not trim rows, which
    is the lexical domain recorded in the manifest)"""
    items = case["items"]
    charts = [it[1] for it in items if it[0] == "chart"]
    n = 0
    for _ in range(rng.randint(1, 4)):
        k = rng.choice(["row-comment", "row-comment", "row-comment", "hdr-comment", "value", "value", "field"])
        if k == "row-comment":
            m = rng.choice(rng.choice(charts)["measures"])
            m.insert(rng.randint(0, len(m)), rng.choice(["//", "// ", "  //"]) + odd_text(rng))
        elif k == "hdr-comment":
            items.insert(rng.randint(0, len(items)), ["comment", odd_text(rng)])
        elif k == "value":
            ts = [it for it in items if it[0] == "tag" and it[1] in STR_TAGS]
            if ts:
                rng.choice(ts)[2] = odd_text(rng)
            else:
                items.insert(0, ["tag", rng.choice(STR_TAGS), odd_text(rng)])
        elif k == "field":
            rng.choice(charts)[rng.choice(["desc", "diff"])] = odd_text(rng)
        n += 1
    case["entry"] = "all"


def corpus():
    base = ("#TITLE:t;\n#OFFSET:-0.5;\n#BPMS:0.000=120.000,\n4.5=60;\n%s#NOTES:\n dance-single:\n d:\n Hard:\n 5:\n 0,0,0,0,0:\n"
            "1000\n0100\n0010\n0001\n,\n2000\n0000\n3000\n0000\n;\n")
    c = [dict(claim="read", stream="main", text=base % "#STOPS:;\n"),
         dict(claim="read", stream="nostops", text=base % ""),
         # two charts with different headers and key counts, tempo change on a 1/16 beat, roll + mine + lift
         dict(claim="read", stream="main", text=(
             "// made by hand\n#TITLE:Two: charts;\n#ARTIST:x;\n#OFFSET:0.125;\n#BPMS:0=150,2.0625=75,\n6.5=300;\n#STOPS:;\n"
             "#NOTES:\n dance-solo:\n A:\n Easy:\n 3:\n 0,0,0,0,0:\n400000\n0M0000\n300000\n00L00K\n,\n0F0000\n000000\n000000\n000001\n;\n"
             "#NOTES:\n kb7-single:\n B:\n Edit:\n 12:\n 1,2,3,4,5:\n0000002\n0000000\n0000000\n0000000\n0000000\n0000000\n0000003\n1000000\n;\n")),
         # 6 rows: outside the property's domain (row positions are not 4r/R)
         dict(claim="read", stream="badrows", text=(
             "#OFFSET:0;\n#BPMS:0=120;\n#STOPS:;\n#NOTES:\n dance-single:\n :\n Hard:\n 1:\n 0:\n1000\n0100\n0010\n0001\n1000\n0100\n;\n")),
         # hold and roll open in one column: the reader closes the hold first
         dict(claim="read", stream="unbracketed", text=(
             "#OFFSET:0;\n#BPMS:0=120;\n#STOPS:;\n#NOTES:\n dance-single:\n :\n Hard:\n 1:\n 0:\n2000\n4000\n3000\n3000\n;\n")),
         dict(claim="read", stream="comments", text=(base % "#STOPS:;\n").replace("0100\n", "0100\n// a:b\n")),
         dict(claim="read", stream="errors", text="#OFFSET:0;\n#STOPS:;\n#BPMS:0=120;\n#NOTES:\n dance-single:\n :\n Hard:\n 1:\n 0:\n1000\n;\n"),
         dict(claim="read", stream="errors", text="#TITLE;\n"),
         dict(claim="read", stream="main", text="#OFFSET:0;\n#BPMS:0=120;\n#STOPS:;\n"),
         # classic-Mac and DOS line ends through read_file (universal newlines)
         dict(claim="read", stream="main", eol="cr", text=base % "#STOPS:;\n"),
         dict(claim="read", stream="main", eol="crlf", text=base % "#STOPS:;\n"),
         # dance-couple rows have 8 columns although the library's key table says 4: every column is returned
         dict(claim="read", stream="main", text=(
             "#OFFSET:0;\n#BPMS:0=120;\n#STOPS:;\n#NOTES:\n dance-couple:\n :\n Hard:\n 1:\n 0:\n10000001\n00002000\n0M003000\n0000010K\n;\n")),
         # characters that end a line for str.splitlines() but not in a .sm text (NEL, LS, FF) inside a comment between
         # rows, inside a header value and after a row: one line / one value / stripped, the same through read(str),
         # read(list) and read_file
         dict(claim="read", stream="exotic", entry="all", text=(base % "#STOPS:;\n").replace("0100\n", "0100\n// part\x85two\u2028three\n")),
         dict(claim="read", stream="exotic", entry="all", eol="crlf",
              text=(base % "#STOPS:;\n").replace("#TITLE:t;", "#TITLE:a\x0cb\u2029c;").replace("0010\n", "0010\x0c\n")),
         ]
    return c


SAFE = set("abcdefghijklmnopqrstuvwxyzABCDEFGHIJKLMNOPQRSTUVWXYZ0123456789 .-()_,=+/#\n\t" + "Ünï日本" + ";:")


def valid(case):
    try:
        if case.get("claim") != "read" or case.get("eol") not in (None, "lf", "crlf", "cr"):
            return False
        if case.get("entry") not in (None, "str", "list", "all"):
            return False
        if "text" in case:
            return isinstance(case["text"], str) and "\\" not in case["text"] and "\r" not in case["text"]
        nb = 0
        for it in case["items"]:
            k = it[0]
            if k == "tag":
                if not (isinstance(it[1], str) and it[1].isupper() and isinstance(it[2], str)):
                    return False
                if any(ch in it[2] for ch in ";:#\\/"):
                    return False
                if it[1] == "STOPS" and it[2].strip() != "":
                    return False
            elif k == "bpms":
                nb += 1
                for b, v in it[1]:
                    if not isinstance(b, str) or not isinstance(v, str):
                        return False
                    try:
                        if Fr(v) <= 0:
                            return False
                    except (ValueError, ZeroDivisionError):
                        pass
            elif k == "chart":
                c = it[1]
                for f in ("type", "desc", "diff", "meter"):
                    if not isinstance(c[f], str) or any(ch in c[f] for ch in ";:#\\/"):
                        return False
                if c["radar"] is not None and (not isinstance(c["radar"], str) or any(ch in c["radar"] for ch in ";:#\\/")):
                    return False
                for m in c["measures"]:
                    for l in m:
                        if not isinstance(l, str) or "\\" in l or "\n" in l:
                            return False
            elif k == "comment":
                if not isinstance(it[1], str) or "\n" in it[1] or "\\" in it[1]:
                    return False
        return True
    except Exception:
        return False


# ------------------------------------------------------------------------------------------ adapters

def err_class(e):
    if isinstance(e, IndexError):
        return "index"
    if isinstance(e, ZeroDivisionError):
        return "zerodiv"
    if isinstance(e, ValueError):
        return "value"
    return "other"


def _fin(x):
    x = float(x)
    if not math.isfinite(x):
        raise FloatingPointError("non-finite %r" % x)
    return Fr(x)


def impl_read(text, path=None):
    from reamber.sm.SMMapSet import SMMapSet
    logging.disable(logging.WARNING)
    try:
        ms = SMMapSet.read(text) if path is None else SMMapSet.read_file(path)
    except Exception as e:
        return ("err", err_class(e), type(e).__name__ + ": " + str(e)[:200])
    try:
        charts = []
        for m in ms.maps:
            notes = []
            for kind, lst in (("hit", m.hits), ("mine", m.mines), ("lift", m.lifts), ("fake", m.fakes),
                              ("keysound", m.keysounds)):
                if len(lst):
                    notes += [(kind, int(c), _fin(o), Fr(0)) for o, c in zip(lst.offset.tolist(), lst.column.tolist())]
            for kind, lst in (("hold", m.holds), ("roll", m.rolls)):
                if len(lst):
                    notes += [(kind, int(c), _fin(o), _fin(l)) for o, c, l in
                              zip(lst.offset.tolist(), lst.column.tolist(), lst.length.tolist())]
            bpms = [(_fin(o), _fin(b)) for o, b in zip(m.bpms.offset.tolist(), m.bpms.bpm.tolist())]
            charts.append(dict(chart_type=m.chart_type, description=m.description, difficulty=m.difficulty,
                               difficulty_val=m.difficulty_val, groove=[_fin(g) for g in m.groove_radar],
                               bpms=bpms, notes=notes))
        hdr = dict(strs={a: getattr(ms, a) for a in ATTR.values()},
                   offset=None if ms.offset is None else _fin(ms.offset),
                   sample_start=_fin(ms.sample_start), sample_length=_fin(ms.sample_length), selectable=ms.selectable)
        return ("ok", dict(hdr=hdr, charts=charts))
    except FloatingPointError as e:
        return ("bad", "nonfinite", str(e))
    finally:
        logging.disable(logging.NOTSET)


def canon_bpms(l):
    """drop tempo points that repeat the previous point's bpm (float noise makes the reseating loop insert them)"""
    out = []
    for o, b in l:
        if out and close(out[-1][1], b, rel=Fr(1, 10 ** 9)):
            continue
        out.append((o, b))
    return out


def text_bpms(den):
    return [(F(p[0]), F(p[1])) for p in den["bpms"]] if den is not None and den.get("bpms") else None


def exact_tempos(pairs):
    """every tempo beat is a small dyadic rational and every 60000/bpm is a dyadic rational of moderate size:
    the implementation's double arithmetic is then exact (DESIGN §3, (E) stream)"""
    if not pairs:
        return False
    for beat, b in pairs:
        if b <= 0 or beat.denominator & (beat.denominator - 1) or beat.denominator > 64:
            return False
        bl = Fr(60000) / b
        d = bl.denominator
        if d & (d - 1) or d > 2 ** 20 or bl.numerator > 2 ** 30 or Fr(float(b)) != b:
            return False
    return True


def notes_key(n):
    return (n[0], n[1], float(n[2]), float(n[3]))


def cmp_notes(a, b):
    """two note lists (kind, col, time, length) as multisets, within the float tolerance; returns (equal, maxdev)"""
    if len(a) != len(b):
        return False, 0.0
    a = sorted(a, key=notes_key)
    b = sorted(b, key=notes_key)
    md = 0.0
    okk = True
    for x, y in zip(a, b):
        if x[0] != y[0] or x[1] != y[1]:
            return False, md
        md = max(md, dev(x[2], y[2]), dev(x[3], y[3]))
        if not close(x[2], y[2]) or not close(x[3], y[3], abs_=Fr(1, 2 ** 30)):
            okk = False
    return okk, md


def jnotes(l):
    return [(n[0], int(n[1]), F(n[2]), F(n[3])) for n in l]


def risky_comment(text):
    for line in text.split("\n"):
        i = line.find("//")
        if i < 0:
            continue
        pre, com = line[:i].strip(), line[i + 2:]
        if any(ch in com for ch in ";:,#"):
            return True
        if pre and pre != "," and not pre.endswith(";"):
            return True
    return False


def run(case, drv):
    """one entry point per case (read(str); read(list of lines) when `entry` = "list"; read_file when `eol` is set), or -
    `entry` = "all" - the same text through all three, each of which must agree with the model and the denotation"""
    ent = case.get("entry")
    if ent != "all":
        return _run_entry(case, drv, "file" if case.get("eol") else ("list" if ent == "list" else "str"))
    res = None
    for e in ENTRIES:
        r = _run_entry(case, drv, e)
        if res is None:
            res = r
            continue
        bad_before = not (res["ok"] and res["agree"])
        bad_now = not (r["ok"] and r["agree"])
        merged = dict(r if (bad_now and not bad_before) else res)
        merged["ok"] = bool(res["ok"] and r["ok"])
        merged["agree"] = bool(res["agree"] and r["agree"])
        merged["dom"] = bool(res.get("dom") and r.get("dom"))
        merged["kf"] = res.get("kf") or r.get("kf")
        merged["tags"] = sorted(set(res["tags"]) | set(r["tags"]))
        merged["nontrivial"] = bool(res.get("nontrivial") or r.get("nontrivial"))
        merged["maxdev"] = max(res.get("maxdev", 0.0), r.get("maxdev", 0.0))
        merged["boundary"] = bool(res.get("boundary") or r.get("boundary"))
        res = merged
    return res


def _run_entry(case, drv, entry):
    text = render(case)
    stream = case.get("stream", "main")
    tags = [stream, "entry-" + entry]
    eol = (case.get("eol") or "lf") if entry == "file" else None
    if eol:
        # through SMMapSet.read_file on a temporary file with LF / CRLF / bare-CR line ends
        import os
        import tempfile
        ftext = text.replace("\n", EOLS[eol])
        fd, path = tempfile.mkstemp(prefix="c02-", suffix=".sm")
        try:
            with os.fdopen(fd, "wb") as f:
                f.write(ftext.encode("utf8"))
            impl = impl_read(None, path)
        finally:
            os.remove(path)
        model = drv.call("c02.read_file", text=ftext)
        den = drv.call("c02.denote_file", text=ftext)["ok"]
        tags.append("file-" + eol)
    else:
        # read(list): the lines of the text (the reader joins them with "\n" again - the same text)
        impl = impl_read(text.split("\n") if entry == "list" else text)
        model = drv.call("c02.read", text=text)
        den = drv.call("c02.denote", text=text)["ok"]
    detail = {}
    maxdev = 0.0
    boundary = False

    # ---------------- (C) implementation vs model
    agree = True
    if model.get("err") == "stops":
        # outside the model: nothing to compare
        return dict(claim="read", ok=True, agree=True, dom=False, kf=None, tags=tags + ["stops-unmodelled"], nontrivial=False)
    if impl[0] == "err":
        agree = model.get("err") == impl[1]
        tags.append("impl-raises-" + impl[1])
    elif impl[0] == "bad":
        agree = False
    else:
        if "ok" not in model:
            agree = False
        else:
            mo, io = model["ok"], impl[1]
            hm, hi = mo["hdr"], io["hdr"]
            if hm["strs"] != hi["strs"] or hm["selectable"] != hi["selectable"]:
                agree = False
            for k in ("offset", "sample_start", "sample_length"):
                a, b = hi[k], hm[k]
                if (a is None) != (b is None) or (a is not None and not close(a, F(b))):
                    agree = False
            if len(mo["charts"]) != len(io["charts"]):
                agree = False
            else:
                for cm, ci in zip(mo["charts"], io["charts"]):
                    for k in ("chart_type", "description", "difficulty", "difficulty_val"):
                        if cm[k] != ci[k]:
                            agree = False
                    if len(cm["groove"]) != len(ci["groove"]) or any(not close(a, F(b)) for a, b in zip(ci["groove"], cm["groove"])):
                        agree = False
                    e, md = cmp_notes(ci["notes"], jnotes(cm["notes"]))
                    if e:
                        maxdev = max(maxdev, md)
                    if not e:
                        agree = False
                    bi = canon_bpms(ci["bpms"])
                    bm = canon_bpms([(F(o), F(b)) for o, b in cm["bpms"]])
                    if len(bi) != len(bm) or any(not close(x[0], y[0]) or not close(x[1], y[1]) for x, y in zip(bi, bm)):
                        # The reseating loop branches on `0 < remainder` of float quotients.  When every beat length
                        # is a dyadic rational the float computation is exact and the lists must be equal; otherwise
                        # an exact remainder 0 can come out as 1e-16 and take the "extend" branch (same millisecond
                        # positions, other bpm/metronome split): accept it if every model point's position is there.
                        if exact_tempos(text_bpms(den)):
                            agree = False
                        elif all(any(close(o, y[0]) for o, _ in ci["bpms"]) for y in bm):
                            boundary = True
                            tags.append("float-boundary-reseat")
                        else:
                            agree = False
    if not agree:
        detail["impl"] = _show(impl)
        detail["model"] = model

    # ---------------- (S) specification on the implementation's output
    ok = True
    in_q = False          # inside the property's quantifier
    dom = False
    nontrivial = False
    why = []
    kf = None
    if den is not None:
        charts = den["charts"]
        stops_fine = (not den["stops_present"]) or den["stops_empty"]
        in_q = (stops_fine and den["tempo_ok"] and den["tempo_on_grid"] and den["offset_sec"] is not None
                and den["charts_well_formed"] and len(charts) >= 1
                and all(c["rows_mult4"] and c["well_bracketed"] and c["meter"] is not None and c["radar"] is not None
                        and c["max_row_len"] <= 18 for c in charts))
        # the reader's own lexical domain (facts recorded in the manifest): ASCII-safe header, known tag order
        if in_q:
            if impl[0] != "ok":
                ok = False
                why.append("reader raised on a text inside the property's domain: %s" % (impl[2] if len(impl) > 2 else impl[1]))
            else:
                io = impl[1]
                if len(io["charts"]) != len(charts):
                    ok = False
                    why.append("chart count %d != %d" % (len(io["charts"]), len(charts)))
                else:
                    for n, (cd, ci) in enumerate(zip(charts, io["charts"])):
                        if (cd["chart_type"], cd["description"], cd["difficulty"], cd["meter"]) != \
                                (ci["chart_type"], ci["description"], ci["difficulty"], ci["difficulty_val"]):
                            ok = False
                            why.append("chart %d header fields" % n)
                        if len(cd["radar"]) != len(ci["groove"]) or any(not close(a, F(b)) for a, b in zip(ci["groove"], cd["radar"])):
                            ok = False
                            why.append("chart %d radar" % n)
                        e, md = cmp_notes(ci["notes"], jnotes(cd["notes"]))
                        if e:
                            maxdev = max(maxdev, md)
                        if not e:
                            ok = False
                            why.append("chart %d objects (column / kind / ms position / length)" % n)
                        offs = [o for o, _ in ci["bpms"]]
                        for tt in den["tempo_times"]:
                            if not any(close(o, F(tt)) for o in offs):
                                ok = False
                                why.append("chart %d tempo change at %s ms missing from the tempo list" % (n, float(F(tt))))
                                break
            later = [F(b[0]) for b in den["bpms"] if F(b[0]) > 0]
            has_long = any(n[0] in ("hold", "roll") for c in charts for n in c["beats"])
            behind = bool(later) and any(F(n[2]) > min(later) for c in charts for n in c["beats"])
            nontrivial = len(charts) >= 2 or has_long or behind
        nostops = (not den["stops_present"]) and len(charts) >= 1
        rc = risky_comment(text)
        if not ok:
            if rc:
                kf = "D32"
        dom = in_q and den["stops_present"] and not rc and stream in ("main",)
        if nostops:
            tags.append("no-stops-tag")
        if rc:
            tags.append("risky-comment")
        if den["tempo_ok"] and not den["tempo_on_grid"]:
            tags.append("tempo-off-grid")
        if any(not c["rows_mult4"] for c in charts):
            tags.append("rows-not-mult4")
        if any(not c["well_bracketed"] for c in charts):
            tags.append("not-well-bracketed")
        tags.append("charts%d" % min(len(charts), 4))
    else:
        tags.append("denote-none")
    if not ok:
        detail["why"] = why
        detail["impl"] = _show(impl)
        detail["spec"] = den
    if not (ok and agree):
        detail["entry"] = entry
    return dict(claim="read", ok=ok, agree=agree, dom=dom, kf=kf, tags=tags, nontrivial=bool(nontrivial), maxdev=maxdev,
                boundary=boundary, detail=detail)


def _show(impl):
    if impl[0] != "ok":
        return list(impl)
    io = impl[1]
    return dict(hdr={k: (str(v) if isinstance(v, Fr) else v) for k, v in io["hdr"].items()},
                charts=[dict(c, notes=[(n[0], n[1], float(n[2]), float(n[3])) for n in c["notes"]],
                             bpms=[(float(o), float(b)) for o, b in c["bpms"]],
                             groove=[float(g) for g in c["groove"]]) for c in io["charts"]])
