"""C06 — Quaver file <-> in-memory chart, both directions.

Correspondence: QuaMap.read(text) / QuaMap.write() against Model/Qua.lean (the model starts at the parsed YAML
document: the harness renders a document to text with PyYAML, hands the text to the implementation and the
`yaml.safe_load` of the same text to the model).  Specification: Spec/Qua.lean (`denote`, `closeChart`,
`docAllowed`) evaluated by the driver on the implementation's output.

claims
  read   document -> chart          impl chart == model chart;   (S) impl chart == Spec.denote(document)
  write  chart -> document          impl doc == model doc;       (S) docAllowed(impl doc) and Spec.denote(impl doc)
                                                                     is the chart with times moved by < 1 ms
  rw     chart -> write -> read     impl == model;               (S) result is the chart up to < 1 ms
  wr     document -> read -> write  impl == model;               (S) the written document is allowed and denotes what
                                                                     the original denotes up to < 1 ms
Charts are built natively (item constructors), with from_dict, or by the converters OsuToQua / SMToQua / BMSToQua /
O2JToQua from sources that went through ordinary operation histories (trimmed, masked, re-sorted, appended, stack-edited,
rated: non-default row labels at conversion time), and are
*observed* (frames -> rows) before they are sent to the model, so the model needs no converter.
"""
import json
import math
from fractions import Fraction as Fr

from lib.rat import R, F, close, dev

ID = "C06"
QUICK_N = 700
THOROUGH_N = 20000
QUICK_BUDGET_S = 80
THOROUGH_BUDGET_S = 900
RULE = ("documents: 0-12 hit objects over lanes 1-10 with StartTime/KeySounds/Lane omitted at random, holds via EndTime, "
        "0-6 timing points / scroll velocities with omitted StartTime/Bpm/Multiplier, empty sections, hits only, holds only, "
        "a random subset of the 21 metadata keys with strings that need YAML quoting, strings and tag lists long enough to be folded "
        "by PyYAML (> 80 characters), block and flow style, hand-written documents with plain multi-line / folded `>` / literal `|` / "
        "quoted multi-line scalars; read through read(text), read(list of lines), read_file (LF and CRLF files) and written through "
        "write() or write_file - every entry point must agree with read(<the file's text>); charts: built "
        "natively, with from_dict, or converted (OsuToQua, SMToQua, BMSToQua, O2JToQua) from source charts that first went through "
        "0-3 ordinary operations (after/before/between, boolean mask, reverse sort, sort, append, stack edit, rate - they leave "
        "non-default row labels), offsets from integers, dyadic rationals, "
        "arbitrary doubles and values next to a whole millisecond; every text (given or written) also goes through the text-layer "
        "model: emitQua(tree of the model's document, record keys in the frame's column order) == write() text for every entry "
        "of the scalar class, parseQua(text) == yaml.safe_load(text) wherever parseQua accepts; claims read/write/rw/wr; non-trivial = at least one "
        "hit object or tempo point and (an omitted key, a hold, a fractional time, a quoted string, or a converted chart)")
ASSUMPTIONS = [
    "the format's defaults for omitted keys are the ones reamberPy's reader documents (StartTime 0, KeySounds [], Bpm 120, "
    "Multiplier 1.0, metadata: the QuaMapMeta dataclass defaults); the Quaver reference cannot be consulted offline",
    "allowed keys/types per section: HitObjects {StartTime:int, Lane:int, EndTime:int, KeySounds:list}, TimingPoints "
    "{StartTime:int, Bpm:number}, SliderVelocities {StartTime:int, Multiplier:number}, metadata: the annotated type of each attribute",
    "a tempo point's metronome cannot be carried by the format as modelled (reads back as 4)",
    "unknown per-object keys (pandas pass-through columns), YAML null / non-numeric values in numeric keys and NaN offsets are "
    "outside the modelled domain",
]
TRUSTED_EXTRA = ["PyYAML safe_load / libyaml CDumper outside the modelled text dialect (Model/QuaText.lean: block style, one-line plain / "
                 "single-quoted scalars, lists of mappings two deep); inside it emitQua is compared character for character with "
                 "write() (whole text when every entry is in the class, else entry by entry) and parseQua with yaml.safe_load "
                 "(whole text and every top-level entry) on every case; double-quoted, folded and multi-line scalars, flow style: "
                 "exercised, not modelled",
                 "CPython repr(float) (shortest round-trip decimal) and float(str): the model takes the lexeme; the harness checks "
                 "that the exact value of every float lexeme rounds to the double PyYAML returned"]

KEY_ATTR = [("AudioFile", "audio_file"), ("SongPreviewTime", "song_preview_time"), ("BackgroundFile", "background_file"),
            ("BannerFile", "banner_file"), ("Genre", "genre"),
            ("BPMDoesNotAffectScrollVelocity", "bpm_does_not_affect_scroll_velocity"),
            ("InitialScrollVelocity", "initial_scroll_velocity"), ("HasScratchKey", "has_scratch_key"), ("MapId", "map_id"),
            ("MapSetId", "map_set_id"), ("Mode", "mode"), ("Title", "title"), ("Artist", "artist"), ("Source", "source"),
            ("Tags", "tags"), ("Creator", "creator"), ("DifficultyName", "difficulty_name"), ("Description", "description"),
            ("EditorLayers", "editor_layers"), ("CustomAudioSamples", "custom_audio_samples"), ("SoundEffects", "sound_effects")]
META_KIND = dict(AudioFile="str", SongPreviewTime="int", BackgroundFile="str", BannerFile="str", Genre="str",
                 BPMDoesNotAffectScrollVelocity="bool", InitialScrollVelocity="num", HasScratchKey="bool", MapId="int",
                 MapSetId="int", Mode="str", Title="str", Artist="str", Source="str", Tags="tags", Creator="str",
                 DifficultyName="str", Description="str", EditorLayers="list", CustomAudioSamples="list", SoundEffects="list")
SECTIONS = ("HitObjects", "TimingPoints", "SliderVelocities")
SEC_WIRE = dict(HitObjects="ho", TimingPoints="tp", SliderVelocities="sv")

STRINGS = ["", "a", "audio.mp3", "a: b", "#x", "- y", "'q'", '"dq"', "yes", "no", "null", "1e3", "123", "~", " lead",
           "trail ", "multi\nline", "tab\there", "ünï cødé 日本", "{a}", "[b]", "%", "@at", "`", "a,b", "key: 'v'", "True",
           "0x10", "1_000", ".5", "-", "?", "! tag", "&anchor", "*alias", "|", ">", "Keys4", "Keys7", "Evening's Flip",
           "x" * 90, "a #b", "a:b", ":", "é", "\\n", "3.14", ".nan", ".inf", "2001-01-01", "=", "<<"]
TAG_WORDS = ["a", "b", "tag", "日本", "x:y", "#1", "'", "-", "1", "yes", "ü", "[t]", "a,b"]
TWO40 = Fr(1, 2 ** 40)


def _imports():
    from reamber.quaver.QuaMap import QuaMap
    from reamber.quaver.QuaHit import QuaHit
    from reamber.quaver.QuaHold import QuaHold
    from reamber.quaver.QuaBpm import QuaBpm
    from reamber.quaver.QuaSv import QuaSv
    from reamber.quaver.lists.QuaBpmList import QuaBpmList
    from reamber.quaver.lists.QuaSvList import QuaSvList
    from reamber.quaver.lists.notes.QuaHitList import QuaHitList
    from reamber.quaver.lists.notes.QuaHoldList import QuaHoldList
    return QuaMap, QuaHit, QuaHold, QuaBpm, QuaSv, QuaBpmList, QuaSvList, QuaHitList, QuaHoldList


# ------------------------------------------------------------------------------------------ wire encoding

def is_ks_list(v):
    return isinstance(v, list) and all(isinstance(e, dict) and set(e) == {"Sample", "Volume"} and
                                       all(isinstance(x, int) and not isinstance(x, bool) for x in e.values()) for e in v)


def yv(key, v):
    """Python value (parsed YAML / attribute) -> tagged wire value"""
    try:
        import numpy as np
        if isinstance(v, np.bool_):
            v = bool(v)
        elif isinstance(v, np.integer):
            v = int(v)
        elif isinstance(v, np.floating):
            v = float(v)
    except ImportError:
        pass
    if isinstance(v, bool):
        return dict(t="bool", v=v)
    if isinstance(v, int):
        return dict(t="int", v=v)
    if isinstance(v, float):
        if not math.isfinite(v):
            return dict(t="nan")
        return dict(t="flt", v=R(v))
    if isinstance(v, str):
        return dict(t="str", v=v)
    if isinstance(v, list):
        if key == "KeySounds":
            if is_ks_list(v):
                return dict(t="ks", v=[[e["Sample"], e["Volume"]] for e in v])
            return dict(t="strs", v=[json.dumps(e, sort_keys=True, default=str) for e in v])
        return dict(t="strs", v=[e if isinstance(e, str) else json.dumps(e, sort_keys=True, default=str) for e in v])
    return dict(t="nan")     # None / unsupported: no type of the format admits it


def rec_wire(r):
    return [[str(k), yv(k, v)] for k, v in r.items()]


def doc_wire(d):
    """parsed YAML mapping -> Doc"""
    out = dict(meta=[[str(k), yv(k, v)] for k, v in d.items() if k not in SECTIONS])
    for s in SECTIONS:
        if s in d and isinstance(d[s], list) and all(isinstance(r, dict) for r in d[s]):
            out[SEC_WIRE[s]] = [rec_wire(r) for r in d[s]]
        else:
            out[SEC_WIRE[s]] = None
    return out


def canon_rec(r):
    return sorted((k, json.dumps(v, sort_keys=True)) for k, v in r)


def _num_close(a, b):
    """two wire values: equal, or numbers within the float bridge tolerance"""
    if a == b:
        return True
    if a.get("t") in ("int", "flt") and b.get("t") in ("int", "flt"):
        fa = F(a["v"]) if a["t"] == "flt" else Fr(a["v"])
        fb = F(b["v"]) if b["t"] == "flt" else Fr(b["v"])
        return a["t"] == b["t"] and close(fa, fb)
    return False


def recs_equal(ra, rb):
    da, db = dict((k, v) for k, v in ra), dict((k, v) for k, v in rb)
    return set(da) == set(db) and len(da) == len(ra) and len(db) == len(rb) and all(_num_close(da[k], db[k]) for k in da)


# ------------------------------------------------------------------------------------------ observing the implementation

class Unobservable(Exception):
    pass


def _cell_ks(v):
    if isinstance(v, float) and math.isnan(v):
        return None
    if is_ks_list(v):
        return [[e["Sample"], e["Volume"]] for e in v]
    raise Unobservable(f"keysounds cell {v!r}")


def _num(v):
    if isinstance(v, bool):
        raise Unobservable(f"bool where a number is expected")
    try:
        return R(v)
    except Exception:
        raise Unobservable(f"number {v!r}")


def _col(v):
    f = Fr(*_num(v))
    if f.denominator != 1:
        raise Unobservable(f"non-integral column {v!r}")
    return int(f)


def observe(m):
    """QuaMap -> (Chart wire value, list of extra columns)"""
    extras = []

    def rows(tl, cols):
        df = tl.df
        ex = [c for c in df.columns if c not in cols]
        miss = [c for c in cols if c not in df.columns]
        if miss:
            raise Unobservable(f"missing columns {miss}")
        if ex and len(df) > 0:      # a column of a frame without rows cannot reach a file
            extras.extend(str(c) for c in ex)
        return df[cols].to_dict("records")

    hits = [[_num(r["offset"]), _col(r["column"]), _cell_ks(r["keysounds"])] for r in rows(m.hits, ["offset", "column", "keysounds"])]
    holds = [[_num(r["offset"]), _col(r["column"]), _num(r["length"]), _cell_ks(r["keysounds"])]
             for r in rows(m.holds, ["offset", "column", "length", "keysounds"])]
    bpms = [[_num(r["offset"]), _num(r["bpm"]), _num(r["metronome"])] for r in rows(m.bpms, ["offset", "bpm", "metronome"])]
    svs = [[_num(r["offset"]), _num(r["multiplier"])] for r in rows(m.svs, ["offset", "multiplier"])]
    meta = [[k, yv(k, getattr(m, a))] for k, a in KEY_ATTR]
    return dict(meta=meta, hits=hits, holds=holds, bpms=bpms, svs=svs), extras


def err_class(e):
    if isinstance(e, KeyError):
        return "key"
    if isinstance(e, AttributeError):
        return "attr"
    if isinstance(e, TypeError):
        return "type"
    return "other:" + type(e).__name__


# ------------------------------------------------------------------------------------------ building charts

def pynum(x, ints):
    f = F(x)
    if ints and f.denominator == 1:
        return int(f)
    return float(f)


def py_ks(ks):
    return None if ks is None else [dict(Sample=s, Volume=v) for s, v in ks]


def py_meta_val(k, v):
    kind = META_KIND[k]
    if kind == "num" and isinstance(v, list):
        return float(F(v))
    return v


def set_meta(m, meta):
    for k, a in KEY_ATTR:
        if k in meta:
            setattr(m, a, py_meta_val(k, meta[k]))


def apply_history(src, history):
    """ordinary operation histories on the SOURCE chart before conversion (they leave non-default row labels):
    trimming with after/before/between, a boolean mask, reverse sort, append, a stack edit, rate"""
    import numpy as np
    for step in history or []:
        op = step[0]
        for name in ("hits", "holds"):
            tl = getattr(src, name)
            if op == "after":
                setattr(src, name, tl.after(float(F(step[1])), include_end=bool(step[2])))
            elif op == "before":
                setattr(src, name, tl.before(float(F(step[1])), include_end=bool(step[2])))
            elif op == "between":
                setattr(src, name, tl.between(float(F(step[1])), float(F(step[2]))))
            elif op == "mask":
                bits = step[1]
                mask = np.array([bool(bits[i % len(bits)]) for i in range(len(tl))], dtype=bool)
                setattr(src, name, tl[mask])
            elif op == "reverse":
                setattr(src, name, tl.sorted(reverse=True))
            elif op == "sorted":
                setattr(src, name, tl.sorted())
            elif op == "append_first" and len(tl) > 0:
                setattr(src, name, tl.append(tl[0]))
        if op == "stack_shift":
            st = src.stack()
            if len(st._stacked) > 0 if hasattr(st, "_stacked") else True:
                st.offset += float(F(step[1]))
        elif op == "rate":
            src = src.rate(float(F(step[1])))
    return src


def source_rows(src):
    """the rows of the source chart at conversion time, by position (what a converted chart must carry)"""
    hits = sorted((Fr(*R(o)), int(c)) for o, c in zip(src.hits.offset.to_numpy(), src.hits.column.to_numpy()))
    holds = sorted((Fr(*R(o)), int(c), Fr(*R(l))) for o, c, l in
                   zip(src.holds.offset.to_numpy(), src.holds.column.to_numpy(), src.holds.length.to_numpy()))
    bpms = sorted((Fr(*R(o)), Fr(*R(b))) for o, b in zip(src.bpms.offset.to_numpy(), src.bpms.bpm.to_numpy()))
    return dict(hits=hits, holds=holds, bpms=bpms)


_LAST_SOURCE = {}


def build_chart(case):
    """case['chart'] -> QuaMap, through the construction path case['build']"""
    _LAST_SOURCE.clear()
    QuaMap, QuaHit, QuaHold, QuaBpm, QuaSv, QuaBpmList, QuaSvList, QuaHitList, QuaHoldList = _imports()
    ch, how, ints = case["chart"], case["build"], case.get("ints", False)
    n = lambda x: pynum(x, ints)
    if how == "native":
        m = QuaMap()
        m.hits = QuaHitList([QuaHit(n(o), c, py_ks(k) or []) for o, c, k in ch["hits"]])
        m.holds = QuaHoldList([QuaHold(n(o), c, n(l), py_ks(k) or []) for o, c, l, k in ch["holds"]])
        m.bpms = QuaBpmList([QuaBpm(n(o), n(b), metronome=n(mt)) for o, b, mt in ch["bpms"]])
        m.svs = QuaSvList([QuaSv(n(o), n(mu)) for o, mu in ch["svs"]])
        set_meta(m, ch["meta"])
        return m
    if how == "from_dict":
        m = QuaMap()
        if ch["hits"]:
            m.hits = QuaHitList.from_dict(dict(offset=[n(o) for o, c, k in ch["hits"]], column=[c for o, c, k in ch["hits"]],
                                               keysounds=[py_ks(k) or [] for o, c, k in ch["hits"]]))
        if ch["holds"]:
            m.holds = QuaHoldList.from_dict(dict(offset=[n(o) for o, c, l, k in ch["holds"]], column=[c for o, c, l, k in ch["holds"]],
                                                 length=[n(l) for o, c, l, k in ch["holds"]],
                                                 keysounds=[py_ks(k) or [] for o, c, l, k in ch["holds"]]))
        if ch["bpms"]:
            m.bpms = QuaBpmList.from_dict(dict(offset=[n(o) for o, b, mt in ch["bpms"]], bpm=[n(b) for o, b, mt in ch["bpms"]],
                                               metronome=[n(mt) for o, b, mt in ch["bpms"]]))
        if ch["svs"]:
            m.svs = QuaSvList.from_dict(dict(offset=[n(o) for o, mu in ch["svs"]], multiplier=[n(mu) for o, mu in ch["svs"]]))
        set_meta(m, ch["meta"])
        return m
    if how == "osu":
        from reamber.osu.OsuMap import OsuMap
        from reamber.osu.OsuHit import OsuHit
        from reamber.osu.OsuHold import OsuHold
        from reamber.osu.OsuBpm import OsuBpm
        from reamber.osu.OsuSv import OsuSv
        from reamber.osu.lists.notes.OsuHitList import OsuHitList
        from reamber.osu.lists.notes.OsuHoldList import OsuHoldList
        from reamber.osu.lists.OsuBpmList import OsuBpmList
        from reamber.osu.lists.OsuSvList import OsuSvList
        from reamber.algorithms.convert.OsuToQua import OsuToQua
        o = OsuMap()
        o.circle_size = case.get("keys", 4)
        o.hits = OsuHitList([OsuHit(n(of), c) for of, c, k in ch["hits"]])
        o.holds = OsuHoldList([OsuHold(n(of), c, n(l)) for of, c, l, k in ch["holds"]])
        o.bpms = OsuBpmList([OsuBpm(n(of), n(b)) for of, b, mt in ch["bpms"]])
        o.svs = OsuSvList([OsuSv(n(of), n(mu)) for of, mu in ch["svs"]])
        meta = ch["meta"]
        o.title = meta.get("Title", "")
        o.artist = meta.get("Artist", "")
        o.creator = meta.get("Creator", "")
        o.version = meta.get("DifficultyName", "")
        o.tags = list(meta.get("Tags", []))
        o.audio_file_name = meta.get("AudioFile", "")
        o.background_file_name = meta.get("BackgroundFile", "")
        o = apply_history(o, case.get("history"))
        _LAST_SOURCE.update(source_rows(o))
        m = OsuToQua.convert(o)
        if "InitialScrollVelocity" in meta:
            m.initial_scroll_velocity = py_meta_val("InitialScrollVelocity", meta["InitialScrollVelocity"])
        return m
    if how == "sm":
        from reamber.sm.SMMapSet import SMMapSet
        from reamber.sm.SMMap import SMMap
        from reamber.sm.SMHit import SMHit
        from reamber.sm.SMHold import SMHold
        from reamber.sm.SMBpm import SMBpm
        from reamber.sm.lists.SMBpmList import SMBpmList
        from reamber.sm.lists.notes import SMHitList, SMHoldList
        from reamber.algorithms.convert.SMToQua import SMToQua
        sms = SMMapSet()
        sm = SMMap()
        sm.chart_type = "kb7-single" if case.get("keys", 4) == 7 else "dance-single"
        sm.hits = SMHitList([SMHit(n(of), c) for of, c, k in ch["hits"]])
        sm.holds = SMHoldList([SMHold(n(of), c, n(l)) for of, c, l, k in ch["holds"]])
        sm.bpms = SMBpmList([SMBpm(n(of), n(b)) for of, b, mt in ch["bpms"]])
        meta = ch["meta"]
        sms.title = meta.get("Title", "")
        sms.artist = meta.get("Artist", "")
        sms.credit = meta.get("Creator", "")
        sms.music = meta.get("AudioFile", "")
        sms.background = meta.get("BackgroundFile", "")
        sm = apply_history(sm, [h for h in case.get("history") or [] if h[0] != "rate"])
        _LAST_SOURCE.update(source_rows(sm))
        sms.maps = [sm]
        m = SMToQua.convert(sms)[0]
        if "InitialScrollVelocity" in meta:
            m.initial_scroll_velocity = py_meta_val("InitialScrollVelocity", meta["InitialScrollVelocity"])
        return m
    if how == "bms":
        from reamber.bms.BMSMap import BMSMap
        from reamber.bms.BMSHit import BMSHit
        from reamber.bms.BMSHold import BMSHold
        from reamber.bms.BMSBpm import BMSBpm
        from reamber.bms.lists.BMSBpmList import BMSBpmList
        from reamber.bms.lists.notes.BMSHitList import BMSHitList
        from reamber.bms.lists.notes.BMSHoldList import BMSHoldList
        from reamber.algorithms.convert.BMSToQua import BMSToQua
        b = BMSMap()
        b.hits = BMSHitList([BMSHit(n(of), c) for of, c, k in ch["hits"]])
        b.holds = BMSHoldList([BMSHold(n(of), c, n(l)) for of, c, l, k in ch["holds"]])
        b.bpms = BMSBpmList([BMSBpm(n(of), n(bp)) for of, bp, mt in ch["bpms"]])
        meta = ch["meta"]
        b.title = meta.get("Title", "t").encode("ascii", "ignore")
        b.artist = meta.get("Artist", "a").encode("ascii", "ignore")
        b.version = meta.get("DifficultyName", "v").encode("ascii", "ignore")
        b = apply_history(b, [h for h in case.get("history") or [] if h[0] != "rate"])
        _LAST_SOURCE.update(source_rows(b))
        m = BMSToQua.convert(b, raise_bad_mode=False)
        if "InitialScrollVelocity" in meta:
            m.initial_scroll_velocity = py_meta_val("InitialScrollVelocity", meta["InitialScrollVelocity"])
        return m
    if how == "o2j":
        from reamber.o2jam.O2JMapSet import O2JMapSet
        from reamber.o2jam.O2JMap import O2JMap
        from reamber.o2jam.O2JHit import O2JHit
        from reamber.o2jam.O2JHold import O2JHold
        from reamber.o2jam.O2JBpm import O2JBpm
        from reamber.o2jam.lists.O2JBpmList import O2JBpmList
        from reamber.o2jam.lists.notes.O2JHitList import O2JHitList
        from reamber.o2jam.lists.notes.O2JHoldList import O2JHoldList
        from reamber.algorithms.convert.O2JToQua import O2JToQua
        oj = O2JMap()
        oj.hits = O2JHitList([O2JHit(n(of), c) for of, c, k in ch["hits"]])
        oj.holds = O2JHoldList([O2JHold(n(of), c, n(l)) for of, c, l, k in ch["holds"]])
        oj.bpms = O2JBpmList([O2JBpm(n(of), n(bp)) for of, bp, mt in ch["bpms"]])
        meta = ch["meta"]
        ojs = O2JMapSet()
        ojs.title = meta.get("Title", "")
        ojs.artist = meta.get("Artist", "")
        ojs.creator = meta.get("Creator", "")
        ojs.level = [7]
        oj = apply_history(oj, [h for h in case.get("history") or [] if h[0] != "rate"])
        _LAST_SOURCE.update(source_rows(oj))
        ojs.maps = [oj]
        m = O2JToQua.convert(ojs)[0]
        if "InitialScrollVelocity" in meta:
            m.initial_scroll_velocity = py_meta_val("InitialScrollVelocity", meta["InitialScrollVelocity"])
        return m
    raise ValueError(how)


def render(case):
    """case['doc'] (a JSON-able mapping) -> .qua text"""
    import yaml
    if "text" in case:
        return case["text"]
    style = case.get("style", "block")
    return yaml.safe_dump(case["doc"], sort_keys=case.get("sort_keys", False), allow_unicode=True,
                          default_flow_style=(None if style == "mixed" else (True if style == "flow" else False)),
                          width=case.get("width", 80))


def parse(text):
    import yaml
    return yaml.safe_load(text)


# ------------------------------------------------------------------------------------------ generators

def gen_number(rng, kind):
    """an offset-like number as an exact [num, den]"""
    r = rng.random()
    if kind == "int":
        return R(rng.choice([0, 0, 1, -1, rng.randint(-2000, 400000), rng.randint(0, 3000)]))
    if r < 0.35:
        return R(rng.randint(-2000, 400000))
    if r < 0.55:
        return R(Fr(rng.randint(-2000 * 1024, 400000 * 1024), rng.choice([2, 4, 8, 1024])))
    if r < 0.75:
        return R(round(rng.uniform(-2000, 400000), rng.choice([1, 2, 3, 6])))
    if r < 0.9:     # next to a whole millisecond
        k = rng.randint(-50, 5000)
        return R(float(k) + rng.choice([-1, 1]) * rng.choice([2.0 ** -20, 2.0 ** -30, 1e-9, 0.1, 0.9, 0.5, 0.999999]))
    return R(rng.uniform(-1, 1))


def gen_ks(rng, allow_nan=False):
    r = rng.random()
    if allow_nan and r < 0.15:
        return None
    if r < 0.7:
        return []
    return [[rng.randint(1, 9), rng.choice([0, 50, 100])] for _ in range(rng.choice([1, 1, 2, 3]))]


WORDS = ["carry", "me", "away", "extended", "mix", "feat.", "lapix", "Evening's", "flip", "日本語", "ünï", "a:b", "#7", "-", "&", "x" * 17,
         "1e3", "yes", "'q'", "(remix)", "v2", "%", "ok,", "[7K]", "{x}", "|", ">", "tab", "!", "@home", "*", "~", "null", "0x1F"]


def long_string(rng):
    """a string PyYAML has to fold (> 80 characters, with blanks)"""
    n = rng.choice([90, 120, 200, 400])
    out = []
    while sum(len(w) + 1 for w in out) < n:
        out.append(rng.choice(WORDS))
    t = " ".join(out)
    return rng.choice([t, t, "# " + t, t + ": end", "- " + t, "  " + t, t + "  ", t.replace(" ", "  ", 3)])


def gen_meta_value(rng, key):
    kind = META_KIND[key]
    if kind == "str":
        if key == "Mode":
            return rng.choice(["Keys4", "Keys7", "Keys8", "Keys4"])
        if rng.random() < 0.2:
            return long_string(rng)
        return rng.choice(STRINGS)
    if kind == "int":
        return rng.choice([0, -1, 1, 169955, rng.randint(-10, 10 ** 6)])
    if kind == "bool":
        return rng.random() < 0.5
    if kind == "num":
        return rng.choice([1.0, 0.5, 2.25, 1.0199999809265137, 3.0])
    if kind == "list":
        return rng.choice([[], [], [dict(Name="layer", Hidden=False)], [dict(Path="a.wav"), dict(Path="b c.wav", UnaffectedByRate=True)]])
    raise ValueError(kind)


def gen_doc(rng):
    doc = {}
    keys = [k for k, _ in KEY_ATTR]
    r = rng.random()
    chosen = keys if r < 0.3 else ([] if r < 0.4 else [k for k in keys if rng.random() < 0.5 or (k == "InitialScrollVelocity" and rng.random() < 0.7)])
    for k in chosen:
        if k == "Tags":
            words = [rng.choice(TAG_WORDS) for _ in range(rng.choice([0, 1, 2, 4, 30, 60]))]
            doc[k] = rng.choice([" ", "  ", " "]).join(words) if rng.random() < 0.7 else " " + " ".join(words) + "  "
        else:
            doc[k] = gen_meta_value(rng, k)
    numkind = rng.choice(["int", "int", "int", "mixed"])
    nlanes = rng.choice([4, 7, 8, 10, 1])
    shape = rng.choice(["both", "both", "hits", "holds", "empty"])
    n = 0 if shape == "empty" else rng.choice([1, 1, 2, 3, 5, 8, 12])
    p_start = rng.choice([0.0, 0.0, 0.3, 1.0])
    p_ks = rng.choice([0.0, 0.0, 0.0, 0.3, 1.0])
    p_lane = rng.choice([0.0, 0.0, 0.0, 0.0, 0.2, 1.0])
    hos = []
    for _ in range(n):
        rec = {}
        start = F(gen_number(rng, numkind))
        is_hold = shape == "holds" or (shape == "both" and rng.random() < 0.4)
        if rng.random() >= p_start:
            rec["StartTime"] = _py(start)
        if rng.random() >= p_lane:
            rec["Lane"] = rng.randint(1, nlanes)
        if is_hold:
            ln = F(gen_number(rng, numkind)) % 3000 if rng.random() < 0.9 else Fr(-5)
            base = start if "StartTime" in rec else Fr(0)
            rec["EndTime"] = _py(base + ln)
        if rng.random() >= p_ks:
            ks = gen_ks(rng)
            rec["KeySounds"] = [dict(Sample=s, Volume=v) for s, v in ks]
        if rng.random() < 0.5:
            rec = dict(sorted(rec.items()))
        hos.append(rec)
    doc["HitObjects"] = hos
    tps = []
    for _ in range(rng.choice([0, 1, 1, 2, 3, 6])):
        rec = {}
        if rng.random() < 0.8:
            rec["StartTime"] = _py(F(gen_number(rng, numkind)))
        if rng.random() < 0.8:
            rec["Bpm"] = rng.choice([120.0, 175.0, 100.5, 33.333333333333336, 60, 200, round(rng.uniform(20, 600), 3)])
        tps.append(rec)
    doc["TimingPoints"] = tps
    svs = []
    for _ in range(rng.choice([0, 0, 1, 2, 3, 6])):
        rec = {}
        if rng.random() < 0.8:
            rec["StartTime"] = _py(F(gen_number(rng, numkind)))
        if rng.random() < 0.8:
            rec["Multiplier"] = rng.choice([1.0, 1.01999998, 0.325713784, 4.54000664, 0.0, -1.5, 2, round(rng.uniform(0, 10), 4)])
        svs.append(rec)
    doc["SliderVelocities"] = svs
    if rng.random() < 0.3:       # sections anywhere among the metadata keys
        items = list(doc.items())
        rng.shuffle(items)
        doc = dict(items)
    return doc


def _py(f):
    f = Fr(f)
    return int(f) if f.denominator == 1 else float(f)


def gen_chart(rng, build):
    ints = rng.random() < 0.3
    kind = "int" if ints else "mixed"
    keys = rng.choice([4, 7])
    shape = rng.choice(["both", "both", "hits", "holds", "empty"])
    n = 0 if shape == "empty" else rng.choice([1, 2, 3, 5, 8])
    hits, holds = [], []
    for _ in range(n):
        o = gen_number(rng, kind)
        c = rng.randint(0, keys - 1)
        ks = gen_ks(rng) if build in ("native", "from_dict") else None
        if shape == "holds" or (shape == "both" and rng.random() < 0.4):
            r = rng.random()
            if r < 0.15:    # tail next to a whole millisecond
                tail = Fr(rng.randint(0, 5000)) + rng.choice([0, Fr(1, 2 ** 30), -Fr(1, 2 ** 30)])
                ln = R(float(tail - F(o)))
            elif r < 0.25:
                o, ln = rng.choice([(R(0.7), R(0.3)), (R(0.1), R(0.2)), (R(10.9), R(0.2)), (R(-0.5), R(0.25))])
            else:
                ln = R(abs(F(gen_number(rng, kind))) % 5000)
            holds.append([o, c, ln, ks])
        else:
            hits.append([o, c, ks])
    bpms = [[gen_number(rng, kind), R(rng.choice([120, 175.0, 100.5, 100 / 3, 60, round(rng.uniform(20, 600), 3)])),
             R(rng.choice([4, 4, 3, 6, 4.5]))] for _ in range(rng.choice([0, 1, 1, 2, 4]))]
    svs = [[gen_number(rng, kind), R(rng.choice([1.0, 1.01999998, 0.325713784, 0.0, -1.5, 2, round(rng.uniform(0, 10), 4)]))]
           for _ in range(rng.choice([0, 0, 1, 2, 4]))]
    meta = {}
    for k, _ in KEY_ATTR:
        if k == "Tags":
            if rng.random() < 0.8:
                r = rng.random()
                if r < 0.85:
                    meta[k] = [rng.choice(TAG_WORDS + ["longertag", "another-tag"]) for _ in range(rng.choice([0, 1, 2, 4, 30, 60]))]
                else:
                    meta[k] = [rng.choice(TAG_WORDS + ["two words", "", " "]) for _ in range(rng.choice([1, 2, 3]))]
        elif k == "InitialScrollVelocity":
            if rng.random() < 0.8:
                meta[k] = R(gen_meta_value(rng, k))
        elif rng.random() < 0.5:
            meta[k] = gen_meta_value(rng, k)
    return dict(meta=meta, hits=hits, holds=holds, bpms=bpms, svs=svs), ints, keys


PLAIN_WORDS = ["carry", "me", "away", "extended", "mix", "lapix", "flip", "remix", "v2", "seven", "keys", "日本語", "ünï"]


def gen_raw_text(rng):
    """a hand-written document: metadata scalars that span several lines (plain, folded `>`, literal `|`, quoted),
    the three sections dumped by PyYAML"""
    import yaml
    doc = gen_doc(rng)
    lines = []
    for k, _ in KEY_ATTR:
        kind = META_KIND[k]
        if kind not in ("str", "tags") or k == "Mode" or rng.random() < 0.5:
            continue
        words = [rng.choice(PLAIN_WORDS) for _ in range(rng.choice([3, 6, 12, 25]))]
        cut = sorted(rng.sample(range(1, len(words)), min(len(words) - 1, rng.choice([1, 2, 3]))))
        chunks = [" ".join(words[a:b]) for a, b in zip([0] + cut, cut + [len(words)])]
        style = rng.choice(["plain", "folded", "folded-strip", "literal", "literal-strip", "dq", "sq", "folded-para"])
        if kind == "tags":
            style = rng.choice(["plain", "folded-strip", "dq", "sq"])
        if style == "plain":
            lines.append(f"{k}: " + chunks[0])
            lines.extend("  " + c for c in chunks[1:])
        elif style in ("folded", "folded-strip", "folded-para"):
            lines.append(f"{k}: " + (">-" if style == "folded-strip" else ">"))
            for j, c in enumerate(chunks):
                lines.append("  " + c)
                if style == "folded-para" and j == 0 and len(chunks) > 1:
                    lines.append("")
        elif style in ("literal", "literal-strip"):
            lines.append(f"{k}: " + ("|-" if style == "literal-strip" else "|"))
            lines.extend("  " + c for c in chunks)
        elif style == "dq":
            lines.append(f'{k}: "' + chunks[0])
            lines.extend("  " + c for c in chunks[1:])
            lines[-1] += '"'
        else:
            lines.append(f"{k}: '" + chunks[0])
            lines.extend("  " + c for c in chunks[1:])
            lines[-1] += "'"
    if rng.random() < 0.7:
        lines.append("InitialScrollVelocity: 1.0")
    if rng.random() < 0.5:
        lines.append("Mode: Keys7")
    secs = {s_: doc[s_] for s_ in SECTIONS}
    body = yaml.safe_dump(secs, sort_keys=False, allow_unicode=True, default_flow_style=False)
    text = "\n".join(lines) + ("\n" if lines else "") + body
    if rng.random() < 0.3:
        text = body + "\n".join(lines) + ("\n" if lines else "")
    return text


def gen_via(rng):
    return rng.choice(["text", "text", "file", "file", "file", "file_crlf", "lines"])


def gen(rng, tier, i):
    r = rng.random()
    if r < 0.34:
        if rng.random() < 0.25:
            return dict(claim="read", text=gen_raw_text(rng), via=gen_via(rng))
        return dict(claim="read", doc=gen_doc(rng), style=rng.choice(["block", "block", "mixed", "flow"]),
                    sort_keys=rng.random() < 0.3, via=gen_via(rng))
    if r < 0.46:
        if rng.random() < 0.25:
            return dict(claim="wr", text=gen_raw_text(rng), via=gen_via(rng))
        return dict(claim="wr", doc=gen_doc(rng), style=rng.choice(["block", "mixed"]), sort_keys=False, via=gen_via(rng))
    build = rng.choice(["native", "native", "native", "from_dict", "osu", "osu", "sm", "sm", "bms", "o2j"])
    ch, ints, keys = gen_chart(rng, build)
    claim = "write" if r < 0.8 else "rw"
    case = dict(claim=claim, build=build, ints=ints, keys=keys, chart=ch, via=gen_via(rng))
    if build in CONVERTED and rng.random() < 0.7:
        case["history"] = gen_history(rng, ch)
    return case


CONVERTED = ("osu", "sm", "bms", "o2j")


def gen_history(rng, ch):
    """1-3 ordinary operations on the source chart before conversion"""
    times = [F(r[0]) for r in ch["hits"] + ch["holds"]] or [Fr(0)]
    lo, hi = min(times), max(times)
    out = []
    for _ in range(rng.choice([1, 1, 2, 3])):
        op = rng.choice(["after", "before", "between", "mask", "mask", "reverse", "sorted", "append_first", "stack_shift", "rate"])
        if op in ("after", "before"):
            out.append([op, R(rng.choice(times + [lo - 1, hi + 1, (lo + hi) / 2])), rng.random() < 0.5])
        elif op == "between":
            a, b = sorted([rng.choice(times + [lo - 1]), rng.choice(times + [hi + 1])])
            out.append([op, R(a), R(b)])
        elif op == "mask":
            out.append([op, [rng.random() < 0.6 for _ in range(rng.choice([2, 3, 5]))]])
        elif op == "stack_shift":
            out.append([op, R(rng.choice([1, -3, 250, Fr(1, 2)]))])
        elif op == "rate":
            out.append([op, R(rng.choice([Fr(1, 2), 2, Fr(5, 4)]))])
        else:
            out.append([op])
    return out


def _doc(ho=(), tp=(), sv=(), **meta):
    d = dict(meta)
    d.update(HitObjects=list(ho), TimingPoints=list(tp), SliderVelocities=list(sv))
    return d


def corpus():
    c = []
    ks0 = []
    # D07 (fixed): a hold with omitted StartTime next to one that declares it
    c.append(dict(claim="read", doc=_doc(ho=[dict(EndTime=500, Lane=3, KeySounds=ks0), dict(StartTime=10, EndTime=300, Lane=1, KeySounds=ks0)])))
    c.append(dict(claim="read", doc=_doc(ho=[dict(EndTime=500, Lane=3, KeySounds=ks0)])))
    # D21 (fixed): KeySounds omitted
    c.append(dict(claim="read", doc=_doc(ho=[dict(StartTime=100, Lane=2)]), _expect="D21"))
    c.append(dict(claim="wr", doc=_doc(ho=[dict(StartTime=100, Lane=2), dict(StartTime=5, EndTime=9, Lane=1, KeySounds=ks0)]), _expect="D21"))
    # D08 / D09 (fixed): charts that come out of a converter
    conv = dict(meta=dict(Title="t: #x", Tags=["a", "b"], InitialScrollVelocity=R(1.0)),
                hits=[[R(100.5), 1, None], [R(200), 3, None]], holds=[[R(300), 2, R(150.25), None]],
                bpms=[[R(0), R(150), R(4)]], svs=[[R(10), R(1.5)]])
    c.append(dict(claim="write", build="osu", ints=False, keys=4, chart=conv, _expect="D08"))
    c.append(dict(claim="write", build="sm", ints=True, keys=4, chart=conv, _expect="D08"))
    # D11 / seeded C06-C: sources that went through ordinary histories (non-default row labels) before conversion
    src = dict(meta=dict(Title="t", InitialScrollVelocity=R(1.0)),
               hits=[[R(100), 0, None], [R(200), 1, None], [R(300), 2, None], [R(400), 3, None]],
               holds=[[R(150), 1, R(100), None], [R(350), 2, R(50.5), None]], bpms=[[R(0), R(150), R(4)]], svs=[])
    for b in ("osu", "sm", "bms", "o2j"):
        c.append(dict(claim="write", build=b, ints=False, keys=4, chart=src, history=[["after", R(150), False]]))
    c.append(dict(claim="rw", build="osu", ints=True, keys=4, chart=src, history=[["mask", [False, True]], ["reverse"]]))
    c.append(dict(claim="rw", build="sm", ints=True, keys=4, chart=src, history=[["between", R(150), R(400)], ["stack_shift", R(250)]]))
    # seeded C06-E: the FILE entry points, with scalars that span several lines (folded by the dumper or hand-written)
    long_title = "Carry Me Away (Extended Mix) feat. somebody with a very long name, remixed and extended once more for 7K"
    tags30 = ["tag%d" % i for i in range(30)]
    hand = ("Title: carry me away\n  extended mix\nArtist: >\n  lapix and\n  friends\nDescription: |\n  line one\n  line two\n"
            "Source: \"double quoted\n  continued\"\nTags: a b c\n  d e\nInitialScrollVelocity: 1.0\n"
            "HitObjects:\n- StartTime: 100\n  Lane: 2\n  KeySounds: []\nTimingPoints:\n- StartTime: 0\n  Bpm: 120.0\nSliderVelocities: []\n")
    # the text layer: a file laid out the way the Quaver editor writes it (block style, dashes at the key's column, one-line
    # plain / single-quoted scalars) lies inside the subset parseQua reads; the bundled rsc/maps/qua/*.qua do too
    editor = ("AudioFile: audio.mp3\nSongPreviewTime: 32455\nBackgroundFile: bg file.jpg\nMapId: -1\nMapSetId: -1\nMode: Keys4\n"
              "Title: Carry Me Away (Extended Mix)\nArtist: lapix\nSource: ''\nTags: 'one two'\nCreator: '123'\n"
              "DifficultyName: 4K - it's no.1\nDescription: Created at 1568028960304\nBPMDoesNotAffectScrollVelocity: true\n"
              "InitialScrollVelocity: 1.5\nEditorLayers: []\nCustomAudioSamples: []\nSoundEffects: []\n"
              "TimingPoints:\n- StartTime: 601\n  Bpm: 175\n- StartTime: 1200.5\n  Bpm: 87.5\n"
              "SliderVelocities:\n- StartTime: 601\n  Multiplier: 0.85\n- Multiplier: 1.0e-07\n"
              "HitObjects:\n- StartTime: 601\n  Lane: 2\n  KeySounds: []\n- StartTime: 772\n  Lane: 4\n  EndTime: 943\n  KeySounds:\n"
              "  - Sample: 1\n    Volume: 100\n  - Sample: 2\n    Volume: 50\n- Lane: 1\n  KeySounds: []\n")
    c.extend(dict(claim="text", bundled=b) for b in BUNDLED)
    c.append(dict(claim="read", text=editor))
    c.append(dict(claim="wr", text=editor))
    c.append(dict(claim="read", text=editor, via="file"))
    for via in ("file", "file_crlf", "lines"):
        c.append(dict(claim="read", text=hand, via=via))
        c.append(dict(claim="wr", via=via, doc=_doc(ho=[dict(StartTime=1, Lane=1, KeySounds=ks0)], Title=long_title, Tags=" ".join(tags30),
                                                    Description=long_title + ": " + long_title, InitialScrollVelocity=1.0)))
        c.append(dict(claim="rw", build="native", ints=True, keys=4, via=via,
                      chart=dict(meta=dict(Title=long_title, Artist="# " + long_title, Tags=tags30, InitialScrollVelocity=R(1.0)),
                                 hits=[[R(1), 0, []]], holds=[], bpms=[], svs=[])))
    c.append(dict(claim="rw", build="osu", ints=True, keys=4, via="file",
                  chart=dict(meta=dict(Title=long_title, Tags=tags30, InitialScrollVelocity=R(1.0)),
                             hits=[[R(1), 0, None]], holds=[], bpms=[[R(0), R(120), R(4)]], svs=[])))
    # D29 (fixed): default-constructed metadata used to be written with InitialScrollVelocity: ''
    c.append(dict(claim="write", build="native", ints=False, keys=4,
                  chart=dict(meta={}, hits=[[R(1), 0, []]], holds=[], bpms=[], svs=[]), _expect="D29"))
    # empty sections, hits only, holds only
    c.append(dict(claim="read", doc=_doc()))
    c.append(dict(claim="wr", doc=_doc(InitialScrollVelocity=1.0)))
    c.append(dict(claim="rw", build="native", ints=False, keys=7,
                  chart=dict(meta=dict(InitialScrollVelocity=R(1.0), Tags=["x", "y"], Title="a: b"),
                             hits=[[R(100.7), 2, []], [R(-0.5), 0, [[1, 50]]], [R(-341.9), 3, []]], holds=[],
                             bpms=[[R(0), R(120), R(3)], [R(1000.9), R(100 / 3), R(4)]], svs=[[R(5.5), R(2)]])))
    c.append(dict(claim="write", build="native", ints=False, keys=7,
                  chart=dict(meta=dict(InitialScrollVelocity=R(1.0)), hits=[],
                             holds=[[R(0.1), 1, R(0.2), []], [R(0.7), 1, R(0.3), []], [R(1000), 6, R(500.5), []], [R(10.9), 0, R(0.2), []]],
                             bpms=[], svs=[])))
    # omitted StartTime / Bpm / Multiplier; a lane omitted on one of two hits; no hit declares a lane
    c.append(dict(claim="read", doc=_doc(ho=[dict(Lane=2, KeySounds=ks0), dict(StartTime=5, Lane=1, KeySounds=ks0)],
                                         tp=[dict(StartTime=0, Bpm=120), dict(Bpm=100.5), dict(StartTime=50)],
                                         sv=[dict(StartTime=1, Multiplier=2), dict(Multiplier=0.5), dict(StartTime=5)])))
    c.append(dict(claim="read", doc=_doc(ho=[dict(StartTime=1, KeySounds=ks0), dict(StartTime=5, Lane=4, KeySounds=ks0)])))
    c.append(dict(claim="read", doc=_doc(ho=[dict(StartTime=1, KeySounds=ks0)])))
    # a missing section
    c.append(dict(claim="read", doc=dict(HitObjects=[], TimingPoints=[])))
    # metadata needing quoting; tags with repeated spaces
    c.append(dict(claim="read", doc=_doc(Title="a: b", Tags=" x  y z ", Mode="Keys7", Artist="#1", Description="- dash\nnewline",
                                         Source="'q'", Creator="yes", DifficultyName="1e3", Genre="null", AudioFile="~",
                                         EditorLayers=[dict(Name="l")], InitialScrollVelocity=1.0, SongPreviewTime=169955,
                                         BPMDoesNotAffectScrollVelocity=False)))
    c.append(dict(claim="wr", doc=_doc(ho=[dict(StartTime=100, Lane=2, KeySounds=[dict(Sample=1, Volume=100)]),
                                           dict(StartTime=100, EndTime=250, Lane=7, KeySounds=ks0)],
                                       tp=[dict(StartTime=-341, Bpm=175.0)], sv=[dict(StartTime=344, Multiplier=1.01999998)],
                                       Title="Carry Me Away (Extended Mix)", Tags="a b", InitialScrollVelocity=1.0, Mode="Keys7")))
    return c


def valid(case):
    try:
        cl = case["claim"]
        if cl == "text":
            return case.get("bundled") in BUNDLED
        if case.get("via", "text") not in VIAS:
            return False
        if cl in ("read", "wr"):
            if "text" in case:
                if not isinstance(case["text"], str):
                    return False
                try:
                    d = parse(case["text"])
                except Exception:
                    return False
            else:
                d = case["doc"]
            if not isinstance(d, dict):
                return False
            for s in SECTIONS:
                if s in d:
                    if not isinstance(d[s], list) or not all(isinstance(r, dict) for r in d[s]):
                        return False
            allowed = dict(HitObjects={"StartTime", "EndTime", "Lane", "KeySounds"}, TimingPoints={"StartTime", "Bpm"},
                           SliderVelocities={"StartTime", "Multiplier"})
            for s in SECTIONS:
                for r in d.get(s, []):
                    if not set(r) <= allowed[s]:
                        return False
                    for k, v in r.items():
                        if k == "KeySounds":
                            if not is_ks_list(v):
                                return False
                        elif k == "Lane":
                            if isinstance(v, bool) or not isinstance(v, int):
                                return False
                        elif isinstance(v, bool) or not isinstance(v, (int, float)) or not math.isfinite(v) or abs(v) > 2 ** 40:
                            return False
            for k, v in d.items():
                if k in SECTIONS:
                    continue
                if k not in META_KIND:
                    return False
                kind = META_KIND[k]
                if kind in ("str", "tags") and not isinstance(v, str):
                    return False
                if kind == "int" and (isinstance(v, bool) or not isinstance(v, int)):
                    return False
                if kind == "bool" and not isinstance(v, bool):
                    return False
                if kind == "num" and (isinstance(v, bool) or not isinstance(v, (int, float)) or not math.isfinite(v)):
                    return False
                if kind == "list" and not (isinstance(v, list) and all(isinstance(e, dict) for e in v)):
                    return False
            return True
        if cl in ("write", "rw"):
            ch = case["chart"]
            if case["build"] not in ("native", "from_dict", "osu", "sm", "bms", "o2j"):
                return False
            for h in case.get("history") or []:
                if h[0] not in ("after", "before", "between", "mask", "reverse", "sorted", "append_first", "stack_shift", "rate"):
                    return False
                if h[0] == "mask" and not (isinstance(h[1], list) and h[1]):
                    return False
                if h[0] == "rate" and F(h[1]) <= 0:
                    return False
            for o, c, k in ch["hits"]:
                if abs(F(o)) > 2 ** 40 or not (0 <= c < 18) or not (k is None or all(len(e) == 2 for e in k)):
                    return False
            for o, c, l, k in ch["holds"]:
                if abs(F(o)) > 2 ** 40 or abs(F(l)) > 2 ** 40 or not (0 <= c < 18) or not (k is None or all(len(e) == 2 for e in k)):
                    return False
            for o, b, mt in ch["bpms"]:
                if abs(F(o)) > 2 ** 40 or F(b) < 0 or F(mt) <= 0:
                    return False
            for o, mu in ch["svs"]:
                if abs(F(o)) > 2 ** 40:
                    return False
            for k, v in ch["meta"].items():
                if k not in META_KIND:
                    return False
                kind = META_KIND[k]
                if kind == "tags" and not (isinstance(v, list) and all(isinstance(t, str) for t in v)):
                    return False
                if kind == "str" and not isinstance(v, str):
                    return False
                if kind == "int" and (isinstance(v, bool) or not isinstance(v, int)):
                    return False
                if kind == "bool" and not isinstance(v, bool):
                    return False
                if kind == "num" and not (isinstance(v, list) and len(v) == 2):
                    return False
                if kind == "list" and not (isinstance(v, list) and all(isinstance(e, dict) for e in v)):
                    return False
            return True
        return False
    except Exception:
        return False


# ------------------------------------------------------------------------------------------ comparators

def charts_equal(a, b, ignore=()):
    """exact on columns / keysounds / metadata, float-bridge tolerance on times and values"""
    probs = []
    if "meta" not in ignore:
        if [k for k, _ in a["meta"]] != [k for k, _ in b["meta"]]:
            probs.append("meta-keys")
        else:
            for (k, va), (_, vb) in zip(a["meta"], b["meta"]):
                if not _num_close(va, vb):
                    probs.append(f"meta:{k}")
    for name, nnum in (("hits", [0]), ("holds", [0, 2]), ("bpms", [0, 1, 2]), ("svs", [0, 1])):
        la, lb = a[name], b[name]
        if len(la) != len(lb):
            probs.append(f"{name}:count")
            continue
        for i, (ra, rb) in enumerate(zip(la, lb)):
            for j, (x, y) in enumerate(zip(ra, rb)):
                if j in nnum:
                    if not close(F(x), F(y)):
                        probs.append(f"{name}[{i}].{j}")
                elif x != y:
                    probs.append(f"{name}[{i}].{j}")
    return probs


def chart_maxdev(a, b):
    d = 0.0
    for name, nnum in (("hits", [0]), ("holds", [0, 2]), ("bpms", [0, 1]), ("svs", [0, 1])):
        for ra, rb in zip(a[name], b[name]):
            for j in nnum:
                d = max(d, dev(F(ra[j]), F(rb[j])))
    return d


def near_int(f):
    f = Fr(f)
    n = round(f)
    return abs(f - n) <= TWO40 * max(1, abs(f))


def chart_has_boundary(ch):
    """a time whose exact value lies within the bridge tolerance of a whole millisecond (astype(int) may flip)"""
    for o, c, k in ch["hits"]:
        if near_int(F(o)) and F(o).denominator != 1:
            return True
    for o, c, l, k in ch["holds"]:
        if (near_int(F(o)) and F(o).denominator != 1) or (near_int(F(o) + F(l)) and (F(o) + F(l)).denominator != 1):
            return True
        # the double sum o + l may round onto a whole millisecond although the exact sum is not one
        if Fr(float(F(o)) + float(F(l))) != F(o) + F(l) and near_int(F(o) + F(l)):
            return True
    return False


def docs_equal(da, db):
    probs = []
    if not recs_equal(da["meta"], db["meta"]):
        probs.append("meta")
    for s in ("ho", "tp", "sv"):
        a, b = da.get(s), db.get(s)
        if a is None or b is None:
            if a is not b:
                probs.append(f"{s}:presence")
            continue
        if len(a) != len(b):
            probs.append(f"{s}:count")
            continue
        for i, (ra, rb) in enumerate(zip(a, b)):
            if not recs_equal(ra, rb):
                probs.append(f"{s}[{i}]")
    return probs


def close_chart(drv, c0, c1):
    """Spec.closeChart: same objects, every time moved by < 1 ms, metronome not compared"""
    return drv.call("c06.close_chart", a=c0, b=c1)["ok"]


def meta_problems(c0, c1, tags_ok):
    """metadata of two charts must be equal (tags only when they can survive a file: non-empty, no spaces)"""
    probs = []
    m0, m1 = dict((k, v) for k, v in c0["meta"]), dict((k, v) for k, v in c1["meta"])
    for k, _ in KEY_ATTR:
        if k == "Tags" and not tags_ok:
            continue
        if k not in m0 or k not in m1 or not _num_close(m0[k], m1[k]):
            probs.append(f"meta:{k}")
    return probs



# ------------------------------------------------------------------------------------------ the YAML text layer

SECTION_ORDER = ("TimingPoints", "SliderVelocities", "HitObjects")     # QuaMap.write: after the metadata, in this order
WIRE_SEC = {v: k for k, v in SEC_WIRE.items()}


def flt_lex(x):
    """PyYAML represent_float: the lexeme of a double (the shortest-repr algorithm itself is CPython's, not modelled)"""
    if x != x:
        return ".nan"
    if x == math.inf:
        return ".inf"
    if x == -math.inf:
        return "-.inf"
    v = repr(float(x)).lower()
    if "." not in v and "e" in v:
        v = v.replace("e", ".0e", 1)
    return v


def _sc_of_yv(v):
    t = v["t"]
    if t == "nan":
        return dict(t="flt", lex=".nan")
    if t == "flt":
        return dict(t="flt", lex=flt_lex(float(F(v["v"]))))
    if t in ("bool", "int", "str"):
        return dict(t=t, v=v["v"])
    if t == "ks":
        if not v["v"]:
            return dict(t="empty")
        return dict(t="recs", v=[[["Sample", dict(t="int", v=a)], ["Volume", dict(t="int", v=b)]] for a, b in v["v"]])
    if t == "strs" and not v["v"]:
        return dict(t="empty")
    raise ValueError("outside the dialect: " + t)


def tree_of_wire_doc(doc):
    """the document `QuaMap.write` hands to yaml.dump, as the model computed it -> Tree wire; a top-level entry whose value is
    outside the dialect (a non-empty list that is not a list of mappings of the dialect) is kept with value None: its text is
    not compared, the entries around it are.  None = no section list at all"""
    def sc(v):
        try:
            return _sc_of_yv(v)
        except ValueError:
            return None
    out = [[k, sc(v)] for k, v in doc["meta"]]
    for name in SECTION_ORDER:
        recs = doc.get(SEC_WIRE[name])
        if recs is None:
            return None
        if not recs:
            out.append([name, dict(t="empty")])
            continue
        rs = [[[k, sc(v)] for k, v in r] for r in recs]
        if any(not r or any(v is None for _, v in r) for r in rs):
            out.append([name, None])
        else:
            out.append([name, dict(t="recs", v=rs)])
    return out


def _sc_matches(v, pv):
    t = v["t"]
    if t == "null":
        return pv is None
    if t == "bool":
        return isinstance(pv, bool) and pv == v["v"]
    if t == "int":
        return isinstance(pv, int) and not isinstance(pv, bool) and pv == v["v"]
    if t == "str":
        return isinstance(pv, str) and pv == v["v"]
    if t == "flt":
        if not isinstance(pv, float):
            return False
        if v.get("val") is None:
            lex = v["lex"].lower()
            return (pv != pv) if lex == ".nan" else pv == (-math.inf if lex.startswith("-") else math.inf)
        fr = Fr(int(v["val"][0]), int(v["val"][1]))
        try:
            return float(fr) == pv           # the value the lexeme denotes, correctly rounded
        except OverflowError:
            return pv == (math.inf if fr > 0 else -math.inf)
    return False


def tree_matches_py(ents, d):
    """a parsed Tree (driver) against what yaml.safe_load returned for the same text: same keys in the same order,
    same kinds, same values (a float lexeme by the double it rounds to)"""
    if not isinstance(d, dict) or [e[0] for e in ents] != list(d.keys()):
        return False
    for k, v in ents:
        pv = d[k]
        if v["t"] == "empty":
            good = isinstance(pv, list) and not pv
        elif v["t"] == "recs":
            good = isinstance(pv, list) and len(pv) == len(v["v"]) and all(tree_matches_py(r, x) for r, x in zip(v["v"], pv))
        else:
            good = _sc_matches(v, pv)
        if not good:
            return False
    return True


def _order_like(ents, d):
    """the order of the keys inside a record is the frame's column order (not a matter of the model: records are compared
    as mappings); take it from the implementation's record with the same position.  The top-level order stays the model's."""
    def reorder(rec, prec):
        if not isinstance(prec, dict) or set(prec) != {k for k, _ in rec}:
            return rec
        pos = {k: i for i, k in enumerate(prec)}
        out = sorted(rec, key=lambda kv: pos[kv[0]])
        return [[k, (dict(t="recs", v=[reorder(r, x) for r, x in zip(v["v"], prec[k])])
                     if v["t"] == "recs" and isinstance(prec[k], list) and len(prec[k]) == len(v["v"]) else v)] for k, v in out]
    out = []
    for k, v in ents:
        pv = d.get(k) if isinstance(d, dict) else None
        if v is not None and v["t"] == "recs" and isinstance(pv, list) and len(pv) == len(v["v"]):
            v = dict(t="recs", v=[reorder(r, x) for r, x in zip(v["v"], pv)])
        out.append([k, v])
    return out


def _first_diff(a, b):
    la, lb = a.split("\n"), b.split("\n")
    for i in range(max(len(la), len(lb))):
        x, y = (la[i] if i < len(la) else None), (lb[i] if i < len(lb) else None)
        if x != y:
            return dict(line=i + 1, impl=x, model=y)
    return None


def segments(text):
    """the top-level entries of a block-style text: a line that starts in column 0 (and not with a dash: sequences in a
    mapping are not indented) opens one, indented and blank lines continue it"""
    lines = text.split("\n")
    if lines and lines[-1] == "":
        lines.pop()
    segs = []
    for ln in lines:
        if not segs or (ln and ln[0] not in " \t-"):
            segs.append([ln])
        else:
            segs[-1].append(ln)
    return ["\n".join(sg) + "\n" for sg in segs]


def segment_parse_check(drv, text, tags, detail):
    """parseQua against yaml.safe_load on every top-level entry of the text separately (the same string to both)"""
    import yaml
    segs = segments(text)
    if not segs or len(segs) > 200:
        return True
    trees = drv.call("c06.parse_segments", segs=segs)["ok"]
    n_in, agree = 0, True
    for sg, tr in zip(segs, trees):
        if tr is None:
            continue
        n_in += 1
        try:
            py = yaml.safe_load(sg)
        except Exception as e:
            py = e
        if not tree_matches_py(tr, py):
            agree = False
            detail.setdefault("segment_parse", []).append(dict(segment=sg, parsed=tr, safe_load=repr(py)[:500]))
    tags.append("segments-parsed:%d/4" % (4 * n_in // len(segs)))
    return agree


def text_parse_check(drv, text, pdoc, wire, tags, detail, must_parse=False):
    """parseQua(text) against yaml.safe_load(text) (and treeDoc against the harness' own document encoding);
    returns agree"""
    try:
        p = drv.call("c06.parse_text", text=text)["ok"]
    except UnicodeEncodeError:          # a lone surrogate cannot travel
        tags.append("parse-not-sent")
        return True
    if p["tree"] is None:
        tags.append("parse-outside-subset")
        if must_parse:
            detail["text_parse"] = "parseQua rejects a text emitQua produced"
            return False
        return segment_parse_check(drv, text, tags, detail)
    tags.append("parse-in-subset")
    agree = True
    if not tree_matches_py(p["tree"], pdoc):
        agree = False
        detail["text_parse"] = dict(parsed=p["tree"], safe_load=repr(pdoc)[:2000])
    if p["doc"] is not None:
        q = docs_equal(p["doc"], wire)
        if q:
            agree = False
            detail["text_doc"] = q[:8]
    if p["reemit"] is not None and len(text) and text.endswith("\n") and "written" in tags and p["reemit"] != text:
        agree = False
        detail["text_reemit"] = _first_diff(text, p["reemit"])
    return agree


def text_write_check(drv, model_doc, text, pdoc, wire, tags, detail):
    """emitQua(tree of the model's document) against the text QuaMap.write returned, character for character;
    then parseQua on that text"""
    tree = tree_of_wire_doc(model_doc)
    if tree is not None:
        tree = _order_like(tree, pdoc)
    agree, in_class = True, False
    if tree is None:
        tags.append("text-outside-dialect")
    else:
        known = [e for e in tree if e[1] is not None]
        r = drv.call("c06.emit_text", tree=known)["ok"] if len(known) == len(tree) else dict(text=None, nodup=True)
        if r["text"] is None:
            # entry by entry: every top-level entry of the class must stand in the text exactly as the model emits it
            tags.append("text-outside-class" if len(known) == len(tree) else "text-outside-dialect-entries")
            segs = segments(text)
            it = iter(drv.call("c06.emit_entries", tree=known)["ok"])
            texts = [next(it) if e[1] is not None else None for e in tree]
            if len(segs) != len(texts):
                agree = False
                detail["text_entries"] = dict(impl=len(segs), model=len(texts))
            else:
                n_in = 0
                for sg, tx, (k, _) in zip(segs, texts, tree):
                    if tx is None:
                        # an entry outside the class still has to begin with its key (order of the document)
                        if not (sg.startswith(k + ":") or sg.startswith("'" + k) or sg.startswith('"')):
                            agree = False
                            detail.setdefault("text_entry_diff", []).append(dict(key=k, impl=sg[:200], model=None))
                        continue
                    n_in += 1
                    if tx != sg:
                        agree = False
                        detail.setdefault("text_entry_diff", []).append(dict(key=k, impl=sg[:400], model=tx[:400]))
                tags.append("text-entries-in-class:%d/4" % (4 * n_in // max(1, len(texts))))
        else:
            in_class = True
            tags.append("text-in-class" if r["nodup"] else "text-in-class-dup-keys")     # WFTree of parse_emit_partial
            if r["text"] != text:
                agree = False
                detail["text_diff"] = _first_diff(text, r["text"])
            if r["doc"] is None or docs_equal(r["doc"], model_doc):
                agree = False
                detail["text_tree_doc"] = "treeDoc of the emitted tree is not the model's document"
    tags.append("written")
    if not text_parse_check(drv, text, pdoc, wire, tags, detail, must_parse=in_class and agree and r["nodup"]):
        agree = False
    tags.remove("written")
    return agree


# ------------------------------------------------------------------------------------------ run

def run(case, drv):
    return dict(read=run_read, write=run_write, rw=run_rw, wr=run_wr, text=run_text)[case["claim"]](case, drv)


BUNDLED = ("rsc/maps/qua/NeuroCloud.qua",)


def run_text(case, drv):
    """text layer only: a .qua file written by the Quaver editor (bundled with the repository; it carries per-object keys
    the chart model does not know, so it is no `read` case) - parseQua must accept it and agree with yaml.safe_load"""
    import os
    import sys
    import yaml
    path = os.path.join(os.environ.get("REAMBER_REPO", sys.path[0] or "/repo"), case["bundled"])
    with open(path, "rb") as f:
        text = f.read().decode("utf-8-sig").replace("\r\n", "\n")
    py = yaml.safe_load(text)
    p = drv.call("c06.parse_text", text=text)["ok"]
    tags, detail, agree = ["bundled-file"], {}, True
    if p["tree"] is None:
        agree = False
        detail["text_parse"] = "parseQua rejects the bundled editor-written file " + case["bundled"]
    elif not tree_matches_py(p["tree"], py):
        agree = False
        detail["text_parse"] = "parseQua and yaml.safe_load differ on " + case["bundled"]
    else:
        tags.append("re-emitted-identically" if p["reemit"] == text else "re-emitted-differently")
    return dict(claim="text", ok=True, agree=agree, dom=True, kf=None, tags=tags, nontrivial=True, maxdev=0.0, detail=detail)


def _text_tags(text):
    """does the text hold a scalar that spans several lines (folded by the dumper, or a hand-written block)?"""
    for line in text.split("\n"):
        st = line.lstrip()
        if line[:1] in (" ", "\t") and st and not st.startswith("- ") and not st.startswith("-") and ": " not in st \
                and not st.endswith(":") and not st.startswith("{") and not st.startswith("["):
            return ["folded-scalar"]
    return []


def _doc_tags(doc, text_doc):
    tags = []
    ho = text_doc.get("HitObjects") or []
    if any("EndTime" in r for r in ho if isinstance(r, dict)):
        tags.append("holds")
    if any("EndTime" not in r for r in ho if isinstance(r, dict)):
        tags.append("hits")
    if any("StartTime" not in r for r in ho if isinstance(r, dict)):
        tags.append("omitted-StartTime")
    if any("KeySounds" not in r for r in ho if isinstance(r, dict)):
        tags.append("omitted-KeySounds")
    if any("Lane" not in r for r in ho if isinstance(r, dict)):
        tags.append("omitted-Lane")
    if any("Bpm" not in r for r in text_doc.get("TimingPoints") or []):
        tags.append("omitted-Bpm")
    if any("Multiplier" not in r for r in text_doc.get("SliderVelocities") or []):
        tags.append("omitted-Multiplier")
    if not ho:
        tags.append("no-objects")
    return tags


def _read_impl(arg, file=False):
    """QuaMap.read(text | list of lines) or, with file=True, QuaMap.read_file(path)"""
    QuaMap = _imports()[0]
    import warnings
    with warnings.catch_warnings():
        warnings.simplefilter("ignore")
        try:
            m = QuaMap.read_file(arg) if file else QuaMap.read(arg)
        except Exception as e:
            return ("err", err_class(e), None)
        try:
            ch, extras = observe(m)
        except Unobservable as e:
            return ("unobs", str(e), m)
        return ("ok", ch, extras, m)


VIAS = ("text", "file", "file_crlf", "lines")


def read_via(text, via):
    """the implementation's reading of `text` through one of its entry points.
    -> (impl result, the exact text PyYAML is to parse for the model, problems): every entry point must read what
    `QuaMap.read(<the file's text>)` reads"""
    import os
    import tempfile
    if via == "text":
        return _read_impl(text), text, []
    if via == "lines":
        impl, exact = _read_impl(text.split("\n")), text
        ref = _read_impl(text)
    else:
        exact = text.replace("\n", "\r\n") if via == "file_crlf" else text
        with tempfile.TemporaryDirectory(prefix="c06-") as d:
            path = os.path.join(d, "map.qua")
            with open(path, "wb") as f:
                f.write(exact.encode("utf-8"))
            impl = _read_impl(path, file=True)
            with open(path, "r", encoding="utf-8") as f:
                ref = _read_impl(f.read())
    problems = []
    if impl[0] != ref[0]:
        problems.append(f"{via}-entry-point:{impl[0]}-but-read(text):{ref[0]}")
    elif impl[0] == "ok":
        p = charts_equal(impl[1], ref[1])
        if p:
            problems.append(f"{via}-entry-point-differs-from-read(text):" + ",".join(p[:4]))
    elif impl[0] == "err" and impl[1] != ref[1]:
        problems.append(f"{via}-entry-point-raises:{impl[1]}-but-read(text):{ref[1]}")
    return impl, exact, problems


def omitted_pattern(pdoc):
    """per list (hits, holds) and row: did the record omit KeySounds?"""
    ho = [r for r in (pdoc.get("HitObjects") or []) if isinstance(r, dict)]
    return ([("KeySounds" not in r) for r in ho if "EndTime" not in r], [("KeySounds" not in r) for r in ho if "EndTime" in r])


def nan_pattern(ch):
    return ([h[2] is None for h in ch["hits"]], [h[3] is None for h in ch["holds"]])


def only_omitted_ks_nan(pdoc, impl_ch, spec_ch):
    """D21's predicate: the implementation's chart equals the denotation except that exactly the omitted
    KeySounds came out as NaN"""
    if nan_pattern(impl_ch) != omitted_pattern(pdoc) or not any(any(p) for p in nan_pattern(impl_ch)):
        return False
    a = json.loads(json.dumps(impl_ch))
    for h in a["hits"]:
        if h[2] is None:
            h[2] = []
    for h in a["holds"]:
        if h[3] is None:
            h[3] = []
    return not charts_equal(a, spec_ch)


def run_read(case, drv):
    text = render(case)
    via = case.get("via", "text")
    impl, exact, via_problems = read_via(text, via)
    pdoc = parse(exact)
    wire = doc_wire(pdoc)
    tags = [case.get("style", "block") if "text" not in case else "hand-written", "via-" + via] + _doc_tags(pdoc, pdoc) + _text_tags(text)
    if "doc" in case and pdoc != case["doc"]:
        tags.append("yaml-normalised")
    model = drv.call("c06.read", doc=wire)
    spec = drv.call("c06.denote", doc=wire)
    domf = drv.call("c06.dom_doc", doc=wire)["ok"]
    dom = domf["objs_declared"] and "ok" in spec
    ok, agree, kf, maxdev, detail = True, True, None, 0.0, {}
    if impl[0] == "err":
        agree = model.get("err") == impl[1]
        ok = "ok" not in spec          # a document that denotes a chart must be readable
        tags.append("impl-raises:" + impl[1])
    elif impl[0] == "unobs":
        agree = False
        ok = "ok" not in spec
        detail["unobservable"] = impl[1]
    else:
        _, ch, extras, _m = impl
        if extras:
            agree = False
            ok = False
            detail["extra_columns"] = extras
        if "ok" not in model:
            agree = False
        else:
            p = charts_equal(ch, model["ok"])
            maxdev = chart_maxdev(ch, model["ok"])
            if p:
                agree = False
                detail["model_diff"] = p[:8]
        if "ok" in spec:
            p = charts_equal(ch, spec["ok"])
            if p:
                ok = False
                detail["spec_diff"] = p[:8]
    if via_problems:
        ok = False
        detail["entry_point"] = via_problems
    if not text_parse_check(drv, exact, pdoc, wire, tags, detail):
        agree = False
    if not (ok and agree):
        detail.update(text=text, impl=impl[:2], model=model, spec=spec)
    nontrivial = bool(pdoc.get("HitObjects") or pdoc.get("TimingPoints") or "folded-scalar" in tags) and len(tags) > 3
    return dict(claim="read", ok=ok, agree=agree, dom=dom, kf=kf, tags=tags, nontrivial=nontrivial, maxdev=maxdev, detail=detail)


def _write_impl(m, via="text"):
    """QuaMap.write(), or QuaMap.write_file(path) + the file's text (which must be what write() returns)"""
    import os
    import tempfile
    import warnings
    with warnings.catch_warnings():
        warnings.simplefilter("ignore")
        try:
            if via in ("file", "file_crlf"):
                with tempfile.TemporaryDirectory(prefix="c06-") as d:
                    path = os.path.join(d, "map.qua")
                    m.write_file(path)
                    with open(path, "rb") as f:
                        text = f.read().decode("utf-8").replace("\r\n", "\n")
                if text != m.write():
                    return ("unparsable", "write_file-text-differs-from-write()", text)
            else:
                text = m.write()
        except Exception as e:
            return ("err", err_class(e), None)
    try:
        pdoc = parse(text)
    except Exception as e:
        return ("unparsable", type(e).__name__, text)
    if not isinstance(pdoc, dict):
        return ("unparsable", "not a mapping", text)
    return ("ok", pdoc, text)


def judge_written(drv, wire_doc, chart, domc, problems, findings):
    """(S) for a written document: allowed keys/types, and it denotes `chart` with every time moved by < 1 ms"""
    al = drv.call("c06.doc_allowed", doc=wire_doc)["ok"]
    if not al["allowed"]:
        for sec, key in al["offending"]:      # no open finding excuses an entry (D08, D21, D29 are repaired)
            problems.append(f"not-allowed:{sec}.{key}")
    # denotation: KeySounds that are not lists cannot be denoted; judge the rest with them replaced by []
    patched = json.loads(json.dumps(wire_doc))
    nan_ks = False
    for r in patched.get("ho") or []:
        for e in r:
            if e[0] == "KeySounds" and e[1] == dict(t="nan"):
                e[1] = dict(t="ks", v=[])
                nan_ks = True
    den = drv.call("c06.denote", doc=patched)
    if "ok" not in den:
        problems.append("written-document-has-no-denotation:" + den.get("err", "?"))
        return den
    ref = json.loads(json.dumps(chart))
    if nan_ks:
        for h in ref["hits"]:
            if h[2] is None:
                h[2] = []
        for h in ref["holds"]:
            if h[3] is None:
                h[3] = []
    cc = close_chart(drv, ref, den["ok"])
    if not cc["close"]:
        problems.extend("denotes-other-chart:" + w for w in cc["why"][:6])
    problems.extend(meta_problems(ref, den["ok"], domc["tags_ok"]))
    return den


def _kf_of(problems, findings):
    if problems or not findings:
        return None
    return sorted(findings)[0]


def _chart_tags(case, ch):
    tags = [case["build"]]
    if ch["holds"]:
        tags.append("holds")
    if ch["hits"]:
        tags.append("hits")
    if any(F(r[0]).denominator != 1 for r in ch["hits"] + ch["holds"] + ch["bpms"] + ch["svs"]):
        tags.append("fractional-times")
    if any(h[2] is None for h in ch["hits"]) or any(h[3] is None for h in ch["holds"]):
        tags.append("nan-keysounds")
    return tags


def run_write(case, drv, then_read=False):
    claim = "rw" if then_read else "write"
    import warnings
    try:
        with warnings.catch_warnings():
            warnings.simplefilter("ignore")
            m = build_chart(case)
    except Exception as e:
        empty_bms = case["build"] == "bms" and not (case["chart"]["hits"] or case["chart"]["holds"])   # BMSToQua needs a note
        if case["build"] in CONVERTED and (case.get("history") is not None or empty_bms):
            # an operation of the history is not applicable to this source (e.g. rate on an empty list): not a C06 case
            return dict(claim=claim, ok=True, agree=True, dom=False, tags=["history-not-applicable:" + type(e).__name__],
                        nontrivial=False, detail={})
        raise
    try:
        ch, extras = observe(m)
    except Unobservable as e:
        # a chart produced by conversion must be a chart: finite times, integral lanes, list-valued key sounds
        return dict(claim=claim, ok=False, agree=False, dom=False, tags=["unobservable-chart", case["build"]], nontrivial=True,
                    detail=dict(unobservable=str(e), source_rows={k: [str(x) for x in v[:6]] for k, v in _LAST_SOURCE.items()}))
    tags = _chart_tags(case, ch)
    if case.get("history"):
        tags.append("source-history")
    domc = drv.call("c06.dom_chart", chart=ch)["ok"]
    dom = domc["ks_lists"] and domc["meta_typed"] and domc["tags_ok"] and domc["meta_keys_ok"] and not extras
    boundary = chart_has_boundary(ch)
    via = case.get("via", "text")
    tags.append("via-" + via)
    impl = _write_impl(m, via)
    model = drv.call("c06.write", chart=ch)
    ok, agree, maxdev, detail = True, True, 0.0, {}
    problems, findings = [], set()
    if extras:
        problems.append("extra-columns:" + ",".join(extras))
    if case["build"] in CONVERTED and _LAST_SOURCE:
        # the converted chart carries the rows the source had at conversion time (as multisets: order is C08's matter)
        got = dict(hits=sorted((F(o), c) for o, c, k in ch["hits"]), holds=sorted((F(o), c, F(l)) for o, c, l, k in ch["holds"]),
                   bpms=sorted((F(o), F(b)) for o, b, mt in ch["bpms"]))
        for name in ("hits", "holds", "bpms"):
            if got[name] != _LAST_SOURCE[name]:
                problems.append(f"converted-{name}-differ-from-source")
    try:        # the document must denote the chart as it still is: writing may not alter it
        after, _ = observe(m)
        if json.dumps(after, sort_keys=True) != json.dumps(ch, sort_keys=True):
            problems.append("chart-changed-by-write")
    except Unobservable as e:
        problems.append("chart-unobservable-after-write:" + str(e))
    wire = None
    if impl[0] == "err":
        agree = model.get("err") == impl[1]
        # a chart with well-formed rows and metadata must be writable
        if "ok" in model:
            problems.append("write-raises:" + impl[1])
        tags.append("impl-raises:" + impl[1])
    elif impl[0] == "unparsable":
        agree = False
        problems.append("written-text-unparsable:" + impl[1])
    else:
        wire = doc_wire(impl[1])
        if "ok" not in model:
            agree = False
        else:
            p = docs_equal(wire, model["ok"])
            if p and not boundary:
                agree = False
                detail["model_diff"] = p[:8]
            if not p and not text_write_check(drv, model["ok"], impl[2], impl[1], wire, tags, detail):
                agree = False
        judge_written(drv, wire, ch, domc, problems, findings)
        tags.extend(_text_tags(impl[2]))
        if then_read:
            back, _exact, via_problems = read_via(impl[2], via)
            problems.extend(via_problems)
            mback = drv.call("c06.write_read", chart=ch)
            if back[0] == "ok":
                bch, bex = back[1], back[2]
                if bex:
                    problems.append("extra-columns-after-read:" + ",".join(bex))
                if "ok" not in mback:
                    agree = False
                else:
                    p = charts_equal(bch, mback["ok"])
                    if p and not boundary:
                        agree = False
                        detail["model_diff_back"] = p[:8]
                cc = close_chart(drv, ch, bch)
                if not cc["close"]:
                    problems.extend("read-back-differs:" + w for w in cc["why"][:6])
                problems.extend(meta_problems(ch, bch, domc["tags_ok"]))
            elif back[0] == "err":
                agree = agree and mback.get("err") == back[1]
                problems.append("read-back-raises:" + back[1])
            else:
                agree = False
                problems.append("read-back-unobservable:" + back[1])
    ok = not problems and not findings
    kf = _kf_of(problems, findings)
    if not (ok and agree):
        detail.update(problems=problems, findings=sorted(findings), chart=ch, impl=impl[:2], text=(impl[2] if len(impl) > 2 else None),
                      model=model)
    nontrivial = bool(ch["hits"] or ch["holds"] or ch["bpms"]) and len(tags) > 1
    return dict(claim=claim, ok=ok, agree=agree, dom=dom, kf=kf, tags=tags, nontrivial=nontrivial, maxdev=maxdev,
                boundary=boundary, detail=detail)


def run_rw(case, drv):
    return run_write(case, drv, then_read=True)


def run_wr(case, drv):
    text = render(case)
    via = case.get("via", "text")
    impl, exact, via_problems = read_via(text, via)
    pdoc = parse(exact)
    wire = doc_wire(pdoc)
    tags = [case.get("style", "block") if "text" not in case else "hand-written", "via-" + via] + _doc_tags(pdoc, pdoc) + _text_tags(text)
    domf = drv.call("c06.dom_doc", doc=wire)["ok"]
    spec = drv.call("c06.denote", doc=wire)
    dom = domf["objs_declared"] and "ok" in spec
    mread = drv.call("c06.read", doc=wire)
    ok, agree, detail = True, True, {}
    problems, findings = list(via_problems), set()
    if impl[0] != "ok":
        # reading is judged by the `read` claim; here only the correspondence
        agree = impl[0] == "err" and mread.get("err") == impl[1]
        ok = "ok" not in spec and not via_problems
        return dict(claim="wr", ok=ok, agree=agree, dom=dom, kf=None, tags=tags + ["impl-raises"], nontrivial=False,
                    detail={} if (ok and agree) else dict(text=text, impl=impl[:2], model=mread, spec=spec, entry_point=via_problems))
    _, ch, extras, m = impl
    if extras:
        problems.append("extra-columns:" + ",".join(extras))
    w = _write_impl(m, via)
    mw = drv.call("c06.write", chart=ch)
    boundary = chart_has_boundary(ch)
    if w[0] != "ok":
        agree = w[0] == "err" and mw.get("err") == w[1]
        problems.append("write-after-read-fails:" + str(w[1]))
    else:
        wire2 = doc_wire(w[1])
        if "ok" not in mw:
            agree = False
        else:
            p = docs_equal(wire2, mw["ok"])
            if p and not boundary:
                agree = False
                detail["model_diff"] = p[:8]
            if not p and not text_write_check(drv, mw["ok"], w[2], w[1], wire2, tags, detail):
                agree = False
        if "ok" in spec:
            # the written document is allowed and denotes what the original denotes (times moved by < 1 ms)
            domc = drv.call("c06.dom_chart", chart=spec["ok"])["ok"]
            judge_written(drv, wire2, spec["ok"], domc, problems, findings)
    ok = not problems and not findings
    kf = _kf_of(problems, findings)
    if not (ok and agree):
        detail.update(problems=problems, findings=sorted(findings), text=text, chart=ch, written=(w[2] if len(w) > 2 else w[:2]), model=mw)
    nontrivial = bool(pdoc.get("HitObjects") or pdoc.get("TimingPoints") or "folded-scalar" in tags) and len(tags) > 3
    return dict(claim="wr", ok=ok, agree=agree, dom=dom, kf=kf, tags=tags, nontrivial=nontrivial, boundary=boundary, detail=detail)
