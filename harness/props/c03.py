"""C03 — StepMania writing produces a file that denotes the in-memory mapset.

The in-memory mapset is built by the harness (from objects, by `SMMapSet.read`, by `rate`), its exact content
(every double) is sent to `Model/SM.lean: write` (driver op `c03.write`), and the implementation's text is
interpreted by `Spec/SM.lean: denote` (`c02.denote`).
(C) structure of the implementation's text = structure the model writes (rows of every measure, header values,
    `#BPMS` pairs);
(S) the text is well-formed MSD/.sm, denotes the same charts with the same objects in the same columns, times
    within one row (1/96 beat at the longest beat length between the object and its row) of the snapped position —
    within float tolerance when every tempo point is on a measure line, the object is on the snap grid, its
    measure's LCM fits 384 rows and no time of the chart lies on a snapping discontinuity —, header fields read back, and
    reading the text back returns those objects again.
"""
import logging
import math
from fractions import Fraction as Fr

from lib.rat import R, F, close, dev
from props import c02

ID = "C03"
QUICK_N = 400
THOROUGH_N = 8000
QUICK_BUDGET_S = 80
THOROUGH_BUDGET_S = 900
RULE = ("in-memory mapsets: built from objects (1-3 charts sharing one tempo list, every keyed chart type, tempo points on "
        "measure lines or on 1/16 beats, objects on grids of denominators 1-9,12,16,32,48,64,96 and off-grid, measures "
        "needing > 384 rows, empty leading measures, selectable False, header strings, fractional-millisecond offsets), "
        "obtained by SMMapSet.read of a generated text, by OsuToSM / QuaToSM conversion of a generated osu!mania / Quaver map, "
        "and by rate(); tempo rows out of time order (reversed / shuffled / appended); long unsorted tempo lists with ties (7 % of the stream, half of the search stream: 17-200 rows shuffled / reversed / stacked in sorted blocks / a few rows moved, 0-5 groups of two or three rows at exactly one offset each with its own bpm - the later row of the list is in force -, objects in 3-50 measures spread over the whole timeline, at least one after the last tie); both entry points: write() and, for 30 % of the cases, write_file(path) with the text taken from the file as it is on disk and the read-back clause through read_file(path); histories on one object: write, then an in-place edit through the list property setters (bpm scaling, shifting the whole timeline), an appended tempo row, rate() or nothing, then write again — every write is judged; non-trivial = at least 3 objects and (a hold/roll, or 2 tempo points, or an empty "
        "leading measure, or a capped measure)")
ASSUMPTIONS = [
    "header strings contain no ';' ':' '#' '//' and no surrounding whitespace (MSD has no escape in this writer)",
    "columns are within the chart type's key count; no two objects in one (row, column) on the main stream",
    "float rendering is Python repr (round-trips); `round(beat, 6)` and `int(num * (den_max/den))` are modelled exactly; the shift caused by the 6-decimal #BPMS beats (<= 5e-7 beat per tempo change times the change of beat length) is added to the 1/96-beat limit",
    "the 1/96-beat class: one row of a capped measure, measured with the longest beat length between the object and its written row (an object on a tempo change is written into the slower segment before it), plus the snapping distance of an off-grid time, plus the shift caused by tempo points that are not on the grid (written beat minus exact beat, times the change of beat length; the active point's own snapping with the full beat length)",
    "every write of a history is classified on the chart as it is at that write (content, model call, domain, tolerance class); a time within the float band (2^-40 relative, as in C10) of the midpoint of two neighbouring grid points or of a tempo point may be snapped to either side: the chart is then judged in the 1/96-beat class and a different row count is a float boundary",
    "tempo points at different offsets are written at distinct beats (two points closer than the grid / six decimals resolve have no .sm form); tempo rows at exactly one offset are one tempo point: the row that comes later in the list is in force (to_timing_map sorts stably, the sweep takes the last row of equal offsets; in the file the later #BPMS entry of a beat is in force - Spec.SM.changesOf sorts stably, Props/C03 tie_later_wins) - such lists are judged by (S) but are outside `dom`",
    "header strings contain no carriage return (read_file decodes with universal newlines: file_cr_counterexample)",
]
TRUSTED_EXTRA = ["the exactness / 1/96-beat comparison of (S) is evaluated in Python with Fractions on the denotation returned by the driver"]

KEYED = c02.KEYED
ATTR = c02.ATTR
E_BPMS = [120, 60, 150, 75, 240, 100, 200, 125, 187.5, 93.75, 300, 480, 50]
DENS = [1, 2, 3, 4, 5, 6, 7, 8, 9, 11, 12, 13, 16, 27, 32, 48, 64, 96]
WORDS = ["Song", "a b", "Ünï", "日本", "x-1", "mix (v2)", "", "A", "file.ogg", "bg.png", "120", "the end."]
KINDS = ["hit", "hit", "hit", "mine", "lift", "fake", "keysound", "hold", "roll"]


# ------------------------------------------------------------------------------------------ generators

def gen_tempo(rng, mode):
    """[(beat, bpm)] with the first at beat 0; `mode`: 'line' = every change on a measure line, 'mid' = on 1/16 beats"""
    n = rng.choice([1, 1, 2, 2, 3, 4])
    out = [(Fr(0), Fr(rng.choice(E_BPMS)))]
    b = Fr(0)
    for _ in range(n - 1):
        if mode == "line":
            b += 4 * rng.randint(1, 3)
        else:
            b += Fr(rng.randint(1, 96), 16)
        bpm = Fr(rng.choice(E_BPMS)) if rng.random() < 0.8 else Fr(round(rng.uniform(40, 300), 2)).limit_denominator(100)
        out.append((b, bpm))
    return out


def time_of(tempo, t0, beat):
    T = t0
    for i, (b, bpm) in enumerate(tempo):
        nb = tempo[i + 1][0] if i + 1 < len(tempo) else None
        if nb is None or beat < nb:
            return T + (beat - b) * Fr(60000) / bpm
        T += (nb - b) * Fr(60000) / bpm
    return T


def gen_chart(rng, tempo, t0, style, measures=None):
    """`measures`: the measures that receive objects (default: 1-5 consecutive ones after 0-3 empty leading ones)"""
    typ = rng.choice(sorted(KEYED))
    keys = KEYED[typ]
    nm = rng.choice([1, 2, 3, 5])
    lead = rng.choice([0, 0, 0, 1, 3])                 # empty leading measures
    notes = []
    used = set()
    longs = {}                                          # column -> [(start beat, end beat)]: holds/rolls of a column never overlap
    for m in (range(lead, lead + nm) if measures is None else measures):
        if measures is None and rng.random() < 0.15 and m > lead:
            continue                                    # an empty measure in the middle
        if style == "capped":
            dens = [rng.choice([32, 48, 64, 96, 7, 9, 5]) for _ in range(3)]
        elif style == "offgrid":
            dens = [rng.choice(DENS)]
        else:
            dens = [rng.choice([1, 2, 3, 4, 4, 6, 8, 12, 16, 24, 5, 7, 9, 11, 32, 48])] * 2
            if rng.random() < 0.3:
                dens.append(rng.choice(DENS))
        for _ in range(rng.choice([1, 2, 4, 8])):
            d = rng.choice(dens)
            beat = 4 * m + Fr(rng.randrange(0, 4 * d), d)
            col = rng.randrange(keys)
            kind = rng.choice(KINDS)
            t = time_of(tempo, t0, beat)
            if style == "offgrid" and rng.random() < 0.5:
                t = max(t + Fr(rng.randint(-40, 40), 7), t0)      # never before the first tempo point
            if kind in ("hold", "roll"):
                d2 = rng.choice(dens)
                eb = beat + Fr(rng.randrange(1, 8 * d2), d2)
                te = time_of(tempo, t0, eb)
                key2 = (eb, col)
                if (beat, col) in used or key2 in used:
                    continue
                if any(not (eb < a or b < beat) for a, b in longs.get(col, [])):
                    continue
                longs.setdefault(col, []).append((beat, eb))
                used.add((beat, col))
                used.add(key2)
                notes.append([kind, col, R(float(t)), R(float(te) - float(t))])
            else:
                if (beat, col) in used:
                    continue
                used.add((beat, col))
                notes.append([kind, col, R(float(t)), R(0)])
    rng.shuffle(notes)
    return dict(type=typ, desc=rng.choice(WORDS), diff=rng.choice(c02.DIFFS), meter=rng.choice([1, 5, 12, 0]),
                radar=[R(x) for x in rng.choice([[0.0] * 5, [0.5, 1.0, 0.25, 0.0, 0.125], [1.0]])], notes=notes)


def gen_long(rng, tier):
    """LONG UNSORTED LISTS WITH TIES: a tempo list of 17-200 rows that are not in time order, one or several groups
    of rows at exactly one offset (the row that comes later in the list is the one in force, as with
    `to_timing_map`'s stable sort and as a later `#BPMS` entry on one beat) - where an unstable sort really permutes
    equal keys (numpy's quicksort is an insertion sort up to 16 elements) -, objects (also long, unsorted note lists)
    spread over the whole timeline so that every tempo segment carries some.  A row of `bpms` is
    [offset, bpm, key]: the rows are listed in time order, the in-memory order is the stable order of the keys."""
    mode = rng.choice(["line", "line", "line", "mid"])
    n = rng.choice([17, 18, 20, 24, 33, 40]) if rng.random() < 0.7 else rng.randint(17, 200 if tier == "thorough" else 120)
    ngroups = rng.choice([1, 1, 2, 3, 5]) if rng.random() < 0.9 else 0
    # distinct positions
    tempo = [(Fr(0), Fr(rng.choice(E_BPMS)))]
    b = Fr(0)
    npos = max(2, n - ngroups - (1 if ngroups and rng.random() < 0.3 else 0))
    for _ in range(npos - 1):
        b += 4 * rng.randint(1, 2) if mode == "line" else Fr(rng.randint(1, 64), 16)
        bpm = Fr(rng.choice(E_BPMS)) if rng.random() < 0.85 else Fr(round(rng.uniform(40, 300), 2)).limit_denominator(100)
        tempo.append((b, bpm))
    # rows: every position once, tied positions two or three times (each with its own bpm)
    rows = [[k, bpm] for k, (_, bpm) in enumerate(tempo)]            # [position index, bpm]
    tied = rng.sample(range(len(tempo)), min(ngroups, len(tempo)))
    for k in tied:
        for _ in range(2 if len(rows) < n - 1 and rng.random() < 0.3 else 1):
            other = [v for v in E_BPMS if Fr(v) != tempo[k][1]]
            rows.append([k, Fr(rng.choice(other))])
    # in-memory order: shuffled / reversed / sorted blocks stacked one after the other / a few rows moved
    how = rng.choice(["shuffle", "shuffle", "shuffle", "reverse", "blocks", "few"])
    if how == "shuffle":
        rng.shuffle(rows)
    elif how == "reverse":
        rng.shuffle(rows)
        rows.sort(key=lambda r: -r[0])
    elif how == "blocks":
        rng.shuffle(rows)
        nb = rng.randint(2, 4)
        tagged = [(rng.randrange(nb), r) for r in rows]
        rows = [r for blk in range(nb) for r in sorted([r for t, r in tagged if t == blk], key=lambda r: r[0])]
    else:
        rng.shuffle(rows)
        rows.sort(key=lambda r: r[0])
        for _ in range(rng.randint(1, 3)):
            r = rows.pop(rng.randrange(len(rows)))
            rows.insert(rng.randrange(len(rows) + 1), r)
    # the tempo in force: of the rows of one position, the last one in the in-memory order
    for k, bpm in rows:
        tempo[k] = (tempo[k][0], bpm)
    t0 = Fr(rng.choice([0, 0, -500, 250, 1234.5, -37.25, 1000.25]))
    style = rng.choice(["grid", "grid", "grid", "capped", "offgrid"])
    last_m = int(tempo[-1][0] // 4) + 2
    charts = []
    for _ in range(rng.choice([1, 1, 2])):
        want = rng.choice([3, 6, 12, 25]) if tier != "thorough" else rng.choice([3, 6, 12, 25, 50])
        ms_ = sorted(set(rng.randrange(0, last_m + 1) for _ in range(want)))
        # at least one measure after the last tied position (what comes after a tie is what a swapped tie moves)
        if tied:
            ms_ = sorted(set(ms_) | {int(tempo[max(tied)][0] // 4) + rng.randint(0, 1)})
        charts.append(gen_chart(rng, tempo, t0, style, measures=ms_))
    key_of = {}
    for pos, (k, bpm) in enumerate(rows):
        key_of.setdefault(k, []).append((pos, bpm))
    bpms = []
    for k, (bt, _) in enumerate(tempo):
        for pos, bpm in key_of[k]:
            bpms.append([R(float(time_of(tempo, t0, bt))), R(float(bpm)), pos])
    hdr = dict(strs={a: (rng.choice(WORDS) if rng.random() < 0.3 else "") for a in ATTR.values()},
               offset=bpms[0][0], sample_start=R(rng.choice([0.0, 12500.0])),
               sample_length=R(rng.choice([10.0, 10000.0])), selectable=rng.random() < 0.6)
    case = dict(claim="write", origin="built", mode=mode, style=style, hdr=hdr, bpms=bpms, charts=charts,
                rate=R(rng.choice([0.5, 2.0, 1.5])) if rng.random() < 0.08 else None)
    if rng.random() < 0.1:
        case["rate"] = None
        case["history"] = [rng.choice([["rewrite"], ["scale_bpm", R(2.0)], ["shift_all", R(250.0)], ["rate", R(2.0)]])]
    return case


def gen_search(rng, tier, i):
    """the stream used when the correspondence is broken and a failing input is looked for: the classes in which a
    change of the writer's bookkeeping shows (long unsorted tempo lists with ties; the main stream otherwise)"""
    if rng.random() < 0.5:
        return with_entry(rng, gen_long(rng, tier))
    return gen(rng, tier, i)


def with_entry(rng, case):
    """the entry point: `SMMapSet.write()` or `SMMapSet.write_file(path)` (the file is read back as it is on disk, and
    the read-back clause goes through `SMMapSet.read_file`)"""
    if rng.random() < 0.3:
        case["entry"] = "file"
    return case


def gen(rng, tier, i):
    return with_entry(rng, gen_main(rng, tier, i))


def gen_main(rng, tier, i):
    x = rng.random()
    if x >= 0.93:
        return gen_long(rng, tier)
    if x < 0.22:
        # a mapset obtained by reading a generated text (the C02 generator's main stream)
        for _ in range(20):
            c = c02.gen(rng, tier, i)
            if c["stream"] == "main":
                break
        else:
            c = c02.corpus()[0]
        return dict(claim="write", origin="read", text=c02.render(c), rate=None)
    if x < 0.30:
        for _ in range(20):
            c = c02.gen(rng, tier, i)
            if c["stream"] == "main":
                break
        else:
            c = c02.corpus()[0]
        return dict(claim="write", origin="read", text=c02.render(c), rate=R(rng.choice([0.5, 2.0, 1.5, 0.75, 1.25])))
    mode = rng.choice(["line", "line", "mid"])
    style = rng.choice(["grid", "grid", "grid", "capped", "offgrid"])
    via = rng.choice(["osu", "qua"]) if rng.random() < 0.15 else None
    tempo = gen_tempo(rng, mode)
    t0 = Fr(rng.choice([0, 0, -500, 250, 1234.5, -37.25, 1000.25, 577.2727, 0.4]))
    nch = rng.choice([1, 1, 2, 3]) if via is None else 1
    charts = [gen_chart(rng, tempo, t0, style) for _ in range(nch)]
    if via is not None:
        # a mapset obtained by conversion: osu!mania / Quaver carry taps and holds only; the key count is max column + 1
        c = charts[0]
        keys = KEYED[c["type"]]
        c["type"] = {3: "dance-threepanel", 4: "dance-single", 6: "dance-solo", 7: "kb7-single", 8: "dance-double"}[keys]
        c["notes"] = [n if n[0] in ("hit", "hold") else (["hit"] + n[1:3] + [R(0)] if n[0] != "roll" else ["hold"] + n[1:]) for n in c["notes"]]
        first = R(float(time_of(tempo, t0, Fr(0))))
        c["notes"] = [n for n in c["notes"] if not (n[1] in (0, keys - 1) and F(n[2]) == F(first))]
        c["notes"] += [["hit", keys - 1, first, R(0)], ["hit", 0, first, R(0)]]
    bpms = [[R(float(time_of(tempo, t0, b))), R(float(bpm))] for b, bpm in tempo]
    hdr = dict(strs={a: (rng.choice(WORDS) if rng.random() < 0.5 else "") for a in ATTR.values()},
               offset=bpms[0][0], sample_start=R(rng.choice([0.0, 12500.0, 30000.0])),
               sample_length=R(rng.choice([10.0, 10000.0, 15500.0])), selectable=rng.random() < 0.6)
    rate = R(rng.choice([0.5, 2.0, 1.5, 0.75])) if rng.random() < 0.12 else None
    if via is not None:
        return dict(claim="write", origin="convert", via=via, mode=mode, style=style, hdr=hdr, bpms=bpms, charts=charts, rate=rate)
    case = dict(claim="write", origin="built", mode=mode, style=style, hdr=hdr, bpms=bpms, charts=charts, rate=rate)
    if len(bpms) >= 2 and rng.random() < 0.35:
        perm = list(range(len(bpms)))
        if rng.random() < 0.4:
            perm.reverse()
        else:
            rng.shuffle(perm)
        case["bpm_perm"] = perm          # tempo rows not in time order
    if rng.random() < 0.25:
        steps = []
        case["rate"] = None
        for _ in range(rng.choice([1, 1, 2])):
            k = rng.choice(["scale_bpm", "shift_all", "rate", "append_bpm", "rewrite"])
            if k == "append_bpm" and steps:
                k = "rewrite"           # (the appended point is placed relative to the original timeline)
            if k == "scale_bpm":
                steps.append([k, R(rng.choice([2.0, 0.5, 1.5]))])
            elif k == "shift_all":
                steps.append([k, R(rng.choice([1000.0, 250.0, 37.5]))])
            elif k == "rate":
                steps.append([k, R(rng.choice([2.0, 0.5, 1.25]))])
            elif k == "append_bpm":
                # a tempo point on a measure line of the last tempo, two to five measures after it (appended: out of order when followed by a later edit)
                last_o, last_b = F(bpms[-1][0]), F(bpms[-1][1])
                if len(bpms) >= 2 and rng.random() < 0.6:
                    j = rng.randrange(len(bpms) - 1)          # between two existing points: the list is no longer in time order
                    o = (F(bpms[j][0]) + F(bpms[j + 1][0])) / 2
                else:
                    o = last_o + rng.randint(2, 5) * 4 * Fr(60000) / last_b
                steps.append([k, [R(float(o)), R(float(rng.choice(E_BPMS)))]])
            else:
                steps.append([k])
        case["history"] = steps
    return case


def corpus():
    hdr0 = dict(strs={a: "" for a in ATTR.values()}, offset=R(0), sample_start=R(0), sample_length=R(10), selectable=True)
    hit = lambda c, t: ["hit", c, R(float(t)), R(0)]
    out = []
    # D03 witness: selectable False must be written as a '#SELECTABLE:NO;' value
    out.append(dict(claim="write", origin="built", mode="line", style="grid", hdr=dict(hdr0, selectable=False), bpms=[[R(0), R(120)]],
                    charts=[dict(type="dance-single", desc="", diff="Easy", meter=1, radar=[R(0.0)] * 5, notes=[hit(0, 0), hit(1, 500)])],
                    rate=None))
    # D04 witness: rate() must scale the file offset together with the tempo list
    out.append(dict(claim="write", origin="built", mode="line", style="grid", hdr=dict(hdr0, offset=R(1000)), bpms=[[R(1000), R(120)]],
                    charts=[dict(type="dance-single", desc="", diff="Easy", meter=1, radar=[R(0.0)] * 5, notes=[hit(0, 1000), hit(1, 2500)])],
                    rate=R(2.0)))
    # empty leading measures, a hold over a tempo change on a measure line, a 6-key chart
    out.append(dict(claim="write", origin="built", mode="line", style="grid", hdr=dict(hdr0, strs=dict(hdr0["strs"], title="T", artist="a b")),
                    bpms=[[R(0), R(120)], [R(4000), R(60)]],
                    charts=[dict(type="dance-solo", desc="d", diff="Hard", meter=9, radar=[R(0.5)],
                                 notes=[hit(5, 4000), ["hold", 2, R(3500.0), R(1500.0)], ["mine", 0, R(4000.0 + 1000.0 / 3), R(0)]])],
                    rate=None))
    # a measure whose LCM exceeds 384 rows
    out.append(dict(claim="write", origin="built", mode="line", style="capped", hdr=hdr0, bpms=[[R(0), R(120)]],
                    charts=[dict(type="dance-single", desc="", diff="Easy", meter=1, radar=[R(0.0)] * 5,
                                 notes=[hit(0, 500.0 / 32), hit(1, 500.0 / 9), hit(2, 500.0 * 3 / 7)])], rate=None))
    out.append(dict(claim="write", origin="read", text=c02.corpus()[2]["text"], rate=None))
    # a hold tail on the exact midpoint of two grid points (191/192 of a beat: 95/96 or 1) in the measure of a roll tail
    # at 35/18: the tie decides between 72 rows and the 384-row cap for the whole measure (seed 19 of the quick tier);
    # then the same object written again after two in-place tempo edits
    out.append(dict(claim="write", origin="built", mode="mid", style="capped", hdr=dict(hdr0, selectable=False), bpms=[[R(0), R(100)]],
                    charts=[dict(type="dance-solo", desc="d", diff="B", meter=0, radar=[R(0.0)],
                                 notes=[["hold", 0, R(3750.0), R(1646.875)],
                                        ["roll", 1, [8649491471837867, 2199023255552], [4471347286289067, 2199023255552]]])],
                    rate=None, history=[["scale_bpm", [1, 2]], ["scale_bpm", [1, 2]]]))
    # an object on a tempo change in a capped measure: its row lies in the slower segment before the change, where
    # one row is more milliseconds than after it (seed 2 of the thorough tier, after an appended tempo row)
    out.append(dict(claim="write", origin="built", mode="line", style="capped", hdr=hdr0, bpms=[[R(0), R(300)], [R(800), R(480)]],
                    charts=[dict(type="dance-single", desc="", diff="Easy", meter=1, radar=[R(0.0)] * 5,
                                 notes=[hit(0, 6.25), ["fake", 3, R(800.0), R(0)], hit(1, 925.0)])],
                    rate=None, history=[["append_bpm", [[400, 1], [240, 1]]]]))
    # tempo points off the snap grid (and out of time order), then a faster one appended: the snapped #BPMS beats move
    # the time of everything after them (seed 25 of the quick tier)
    out.append(dict(claim="write", origin="built", mode="line", style="offgrid", hdr=dict(hdr0, offset=R(-500)),
                    bpms=[[R(-500), R(37)], [R(1), R(37)]], bpm_perm=[1, 0],
                    charts=[dict(type="dance-threepanel", desc="d", diff="H", meter=0, radar=[R(0.0)], notes=[hit(0, 3450)])],
                    rate=None, history=[["append_bpm", [[300, 1], [240, 1]]]]))
    # ---- the class LONG UNSORTED LISTS WITH TIES, by hand: rows at one offset, the later row of the list is in force
    # (Props/C03 `tie_later_wins`, `tie_order_counterexample`): 8=60 then 8=240 is 240 bpm from beat 8 on
    tie_notes = [hit(0, 0), hit(1, 4000), hit(2, 4500), ["hold", 3, R(5000.0), R(750.0)], hit(0, 6000)]
    out.append(dict(claim="write", origin="built", mode="line", style="grid", hdr=hdr0,
                    bpms=[[R(0), R(120), 0], [R(4000), R(60), 1], [R(4000), R(240), 2]],
                    charts=[dict(type="dance-single", desc="", diff="Easy", meter=1, radar=[R(0.0)] * 5, notes=tie_notes)], rate=None))
    # the same rows listed out of time order (the overriding row first in the list, then the first tempo point)
    out.append(dict(claim="write", origin="built", mode="line", style="grid", hdr=hdr0,
                    bpms=[[R(0), R(120), 1], [R(4000), R(60), 0], [R(4000), R(240), 2]],
                    charts=[dict(type="dance-single", desc="", diff="Easy", meter=1, radar=[R(0.0)] * 5, notes=tie_notes)], rate=None))
    # 24 rows, reversed in blocks, three tied positions (one of them three rows deep), objects after each of them
    rows24 = []
    t, cur = Fr(0), None
    for i in range(20):
        if cur is not None:
            t += 4 * Fr(60000) / cur
        cur = Fr(120 if i % 2 == 0 else 240)
        rows24.append([t, cur, 100 - i])
        if i in (3, 11, 17):
            cur = Fr(60)
            rows24.append([t, cur, 200 + i])
        if i == 11:
            cur = Fr(150)
            rows24.append([t, cur, 300])
    last_t = t
    out.append(dict(claim="write", origin="built", mode="line", style="grid", hdr=hdr0,
                    bpms=[[R(float(o)), R(float(b)), k] for o, b, k in rows24],
                    charts=[dict(type="dance-single", desc="", diff="Easy", meter=1, radar=[R(0.0)] * 5,
                                 notes=[hit(0, 0)] + [hit(i % 4, float(o) + 60000.0 / float(b) * 1.5) for i, (o, b, k) in enumerate(rows24)
                                                      if k >= 200 and not (k == 211)] +
                                       [["roll", 2, R(float(last_t) + 250.0), R(1000.0)]])], rate=None))
    # ---- the hypotheses of `write_read_exact` that are necessary, replayed on the implementation: the model's
    # counterexamples of Props/C03 (`cap_counterexample`, `collision_counterexample`, `overlap_counterexample`,
    # `offset_counterexample`) as inputs - (C) compares the implementation's text with the model's character for character
    # objects at beats 5/9, 1/32, 1/5 of one measure (denominators 36, 128, 20): 384 rows, the first one at row 53 = beat 53/96
    out.append(dict(claim="write", origin="built", mode="line", style="capped", hdr=hdr0, bpms=[[R(0), R(120)]],
                    charts=[dict(type="dance-single", desc="", diff="Easy", meter=1, radar=[R(0.0)] * 5,
                                 notes=[hit(0, 2500.0 / 9), hit(1, 500.0 / 32), hit(2, 100.0)])], rate=None))
    # two objects in one (row, column): the later one of the writer's order is the one written
    out.append(dict(claim="write", origin="built", mode="line", style="grid", hdr=hdr0, bpms=[[R(0), R(120)]],
                    charts=[dict(type="dance-single", desc="", diff="Easy", meter=1, radar=[R(0.0)] * 5,
                                 notes=[hit(1, 0), ["mine", 1, R(0), R(0)], hit(2, 500)])], rate=None))
    # two holds of one column that overlap: head, head, tail, tail in the column
    out.append(dict(claim="write", origin="built", mode="line", style="grid", hdr=hdr0, bpms=[[R(0), R(120)]],
                    charts=[dict(type="dance-single", desc="", diff="Easy", meter=1, radar=[R(0.0)] * 5,
                                 notes=[["hold", 0, R(0), R(1000.0)], ["hold", 0, R(500.0), R(1000.0)]])], rate=None))
    # #OFFSET different from the first tempo point (outside the property's domain): everything is written 1 s off
    out.append(dict(claim="write", origin="built", mode="line", style="grid", hdr=dict(hdr0, offset=R(1000)), bpms=[[R(0), R(120)]],
                    charts=[dict(type="dance-single", desc="", diff="Easy", meter=1, radar=[R(0.0)] * 5,
                                 notes=[hit(0, 0), hit(1, 2000)])], rate=None))
    # an object before the first tempo point (hypothesis `t0 <= n.time` of ChartWritten): the writer raises IndexError,
    # and so does the model (`Err.index`)
    out.append(dict(claim="write", origin="built", mode="line", style="grid", hdr=dict(hdr0, offset=R(1000)), bpms=[[R(1000), R(120)]],
                    charts=[dict(type="dance-single", desc="", diff="Easy", meter=1, radar=[R(0.0)] * 5,
                                 notes=[hit(0, 500), hit(1, 1500)])], rate=None))
    # two tempo points one millisecond apart snap to the same beat: outside the domain, must not be judged
    out.append(dict(claim="write", origin="built", mode="line", style="grid", hdr=hdr0, bpms=[[R(0), R(37)], [R(1), R(30)]],
                    charts=[dict(type="kb7-single", desc="a", diff="B", meter=0, radar=[R(0.0)], notes=[])], rate=None))
    return out


def valid(case):
    try:
        if case.get("claim") != "write" or case.get("entry", "text") not in ("text", "file"):
            return False
        if case["origin"] == "read":
            return isinstance(case["text"], str) and "\\" not in case["text"]
        if not case["bpms"] or not case["charts"]:
            return False
        offs = [F(b[0]) for b in case["bpms"]]
        keyed = any(len(b) > 2 for b in case["bpms"])
        if any(len(b) not in (2, 3) or (len(b) == 3 and (not isinstance(b[2], int) or isinstance(b[2], bool)))
               for b in case["bpms"]):
            return False
        # rows are listed in time order; rows at one offset (ties) only in the keyed form, where the keys give the
        # in-memory order (the later row is the one in force)
        if any(not (20 <= F(b[1]) <= 2000) for b in case["bpms"]) or offs != sorted(offs) or \
                (len(set(offs)) != len(offs) and not keyed):
            return False
        if keyed and case.get("bpm_perm") is not None:
            return False
        if offs[-1] - offs[0] > 600000 or abs(offs[0]) > 10 ** 6:
            return False
        if F(case["hdr"]["offset"]) != offs[0]:
            return False           # the property's domain: #OFFSET equals the first tempo point
        for v in case["hdr"]["strs"].values():
            if not isinstance(v, str) or any(ch in v for ch in ";:#\\/\n") or v != v.strip():
                return False
        if set(case["hdr"]["strs"]) != set(ATTR.values()):
            return False
        perm = case.get("bpm_perm")
        if perm is not None and (not isinstance(perm, list) or sorted(perm) != list(range(len(case["bpms"])))):
            return False
        for st in case.get("history") or []:
            if st[0] in ("scale_bpm", "rate"):
                if not (Fr(1, 4) <= F(st[1]) <= 4):
                    return False
            elif st[0] == "shift_all":
                if not (0 <= F(st[1]) <= 100000):
                    return False
            elif st[0] == "append_bpm":
                if st is not case["history"][0] or case.get("rate") is not None:
                    return False
                if not (20 <= F(st[1][1]) <= 2000) or not (offs[0] < F(st[1][0]) < offs[0] + 600000) or F(st[1][0]) in offs:
                    return False
            elif st[0] != "rewrite":
                return False
        for c in case["charts"]:
            if c["type"] not in KEYED or not isinstance(c["meter"], int) or not c["radar"]:
                return False
            for f in ("desc", "diff"):
                if not isinstance(c[f], str) or any(ch in c[f] for ch in ";:#\\/\n") or c[f] != c[f].strip():
                    return False
            for n in c["notes"]:
                if n[0] not in KINDS or not (0 <= n[1] < KEYED[c["type"]]) or F(n[2]) < offs[0] or F(n[3]) < 0:
                    return False
                if F(n[2]) - offs[0] > 600000 or F(n[3]) > 120000:
                    return False       # (keeps shrinking candidates from asking for millions of padded measures)
                if n[0] in ("hold", "roll") and F(n[3]) <= 0:
                    return False
        return True
    except Exception:
        return False


# ------------------------------------------------------------------------------------------ adapters

def build_mapset(case):
    from reamber.sm.SMMapSet import SMMapSet
    from reamber.sm.SMMap import SMMap
    from reamber.sm.SMBpm import SMBpm
    from reamber.sm.lists.SMBpmList import SMBpmList
    from reamber.sm.lists.notes import (SMHitList, SMHoldList, SMFakeList, SMLiftList, SMKeySoundList, SMMineList,
                                         SMRollList)
    if case["origin"] == "read":
        ms = SMMapSet.read(case["text"])
    elif case["origin"] == "convert":
        ms = convert_source(case)
    else:
        ms = SMMapSet()
        h = case["hdr"]
        for a, v in h["strs"].items():
            setattr(ms, a, v)
        ms.offset = float(F(h["offset"]))
        ms.sample_start = float(F(h["sample_start"]))
        ms.sample_length = float(F(h["sample_length"]))
        ms.selectable = h["selectable"]
        maps = []
        for c in case["charts"]:
            sm = SMMap()
            sm.chart_type, sm.description, sm.difficulty, sm.difficulty_val = c["type"], c["desc"], c["diff"], c["meter"]
            sm.groove_radar = [float(F(x)) for x in c["radar"]]
            sm.bpms = SMBpmList([SMBpm(float(F(o)), float(F(b))) for o, b in ordered_bpms(case)])
            for kind, cls, attr in (("hit", SMHitList, "hits"), ("mine", SMMineList, "mines"), ("lift", SMLiftList, "lifts"),
                                    ("fake", SMFakeList, "fakes"), ("keysound", SMKeySoundList, "keysounds")):
                rows = [dict(offset=float(F(n[2])), column=n[1]) for n in c["notes"] if n[0] == kind]
                if rows:
                    setattr(sm, attr, cls.from_dict(rows))
            for kind, cls, attr in (("hold", SMHoldList, "holds"), ("roll", SMRollList, "rolls")):
                rows = [dict(offset=float(F(n[2])), column=n[1], length=float(F(n[3]))) for n in c["notes"] if n[0] == kind]
                if rows:
                    setattr(sm, attr, cls.from_dict(rows))
            maps.append(sm)
        ms.maps = maps
    pre = None
    if case.get("rate") is not None:
        pre = ms
        ms = ms.rate(float(F(case["rate"])))
    return ms, pre


def ordered_bpms(case):
    """the tempo rows in the order the case asks for (`bpm_perm`: a permutation of their indices; rows out of time
    order are what `append(..., sort=False)` / stacking produce)"""
    b = case["bpms"]
    if any(len(r) > 2 for r in b):
        # rows [offset, bpm, key]: the in-memory order is the stable order of the keys (a row without one keeps its index)
        ks = [(r[2] if len(r) > 2 else i) for i, r in enumerate(b)]
        b = [b[i][:2] for i in sorted(range(len(b)), key=lambda i: ks[i])]
    perm = case.get("bpm_perm")
    if isinstance(perm, list) and sorted(perm) == list(range(len(b))):
        return [b[i] for i in perm]
    return b


def apply_step(ms, step):
    """one edit of the in-memory mapset between two writes; returns (mapset, mapset the domain condition refers to)"""
    from reamber.sm.SMBpm import SMBpm
    k = step[0]
    if k == "rate":
        return ms.rate(float(F(step[1]))), ms
    if k == "scale_bpm":               # in place, through the list's property setter
        f = float(F(step[1]))
        for m in ms.maps:
            m.bpms.bpm = m.bpms.bpm * f
        return ms, None
    if k == "shift_all":               # in place: the whole timeline moves
        d = float(F(step[1]))
        for m in ms.maps:
            m.bpms.offset = m.bpms.offset + d
            for lst in (m.hits, m.holds, m.mines, m.lifts, m.fakes, m.keysounds, m.rolls):
                if len(lst):
                    lst.offset = lst.offset + d
        ms.offset = ms.offset + d
        return ms, None
    if k == "append_bpm":              # a new tempo row at the end of the list (not in time order)
        for m in ms.maps:
            m.bpms = m.bpms.append(SMBpm(float(F(step[1][0])), float(F(step[1][1]))))
        return ms, None
    if k == "rewrite":                 # nothing changes: a second write of the same object
        return ms, None
    raise ValueError("unknown step %r" % (k,))


def convert_source(case):
    """the generated chart as an osu!mania / Quaver map, converted to StepMania by the library's converter"""
    c = case["charts"][0]
    hits = [dict(offset=float(F(n[2])), column=n[1]) for n in c["notes"] if n[0] == "hit"]
    holds = [dict(offset=float(F(n[2])), column=n[1], length=float(F(n[3]))) for n in c["notes"] if n[0] == "hold"]
    if case["via"] == "osu":
        from reamber.osu.OsuMap import OsuMap
        from reamber.osu.OsuBpm import OsuBpm
        from reamber.osu.lists.OsuBpmList import OsuBpmList
        from reamber.osu.lists.notes.OsuHitList import OsuHitList
        from reamber.osu.lists.notes.OsuHoldList import OsuHoldList
        from reamber.algorithms.convert.OsuToSM import OsuToSM
        m = OsuMap()
        m.bpms = OsuBpmList([OsuBpm(float(F(o)), float(F(b))) for o, b in case["bpms"]])
        if hits:
            m.hits = OsuHitList.from_dict(hits)
        if holds:
            m.holds = OsuHoldList.from_dict(holds)
        m.title, m.artist, m.creator = case["hdr"]["strs"]["title"], case["hdr"]["strs"]["artist"], case["hdr"]["strs"]["credit"]
        return OsuToSM.convert(m)
    from reamber.quaver.QuaMap import QuaMap
    from reamber.quaver.QuaBpm import QuaBpm
    from reamber.quaver.lists.QuaBpmList import QuaBpmList
    from reamber.quaver.lists.notes.QuaHitList import QuaHitList
    from reamber.quaver.lists.notes.QuaHoldList import QuaHoldList
    from reamber.algorithms.convert.QuaToSM import QuaToSM
    m = QuaMap()
    m.bpms = QuaBpmList([QuaBpm(float(F(o)), float(F(b))) for o, b in case["bpms"]])
    if hits:
        m.hits = QuaHitList.from_dict(hits)
    if holds:
        m.holds = QuaHoldList.from_dict(holds)
    m.title, m.artist, m.creator = case["hdr"]["strs"]["title"], case["hdr"]["strs"]["artist"], case["hdr"]["strs"]["credit"]
    return QuaToSM.convert(m)


def extract(ms):
    """exact content of the in-memory mapset (every double) in the driver's format"""
    charts = []
    for m in ms.maps:
        notes = []
        for kind, lst in (("hit", m.hits), ("mine", m.mines), ("lift", m.lifts), ("fake", m.fakes), ("keysound", m.keysounds)):
            if len(lst):
                notes += [[kind, int(c), R(float(o)), R(0)] for o, c in zip(lst.offset.tolist(), lst.column.tolist())]
        for kind, lst in (("hold", m.holds), ("roll", m.rolls)):
            if len(lst):
                notes += [[kind, int(c), R(float(o)), R(float(l))] for o, c, l in
                          zip(lst.offset.tolist(), lst.column.tolist(), lst.length.tolist())]
        charts.append(dict(chart_type=m.chart_type, description=m.description, difficulty=m.difficulty,
                           difficulty_val=int(m.difficulty_val), groove=[R(float(g)) for g in m.groove_radar],
                           bpms=[[R(float(o)), R(float(b))] for o, b in zip(m.bpms.offset.tolist(), m.bpms.bpm.tolist())],
                           notes=notes))
    hdr = dict(strs={a: getattr(ms, a) for a in ATTR.values()}, offset=R(float(ms.offset)),
               sample_start=R(float(ms.sample_start)), sample_length=R(float(ms.sample_length)), selectable=bool(ms.selectable))
    return dict(hdr=hdr, charts=charts)


def effective_rows(rows):
    """the tempo points in force of a tempo list given in in-memory order ([[offset, bpm], ...] on the wire): sorted by
    offset, stably; of several rows at exactly one offset the last one.  Returns ([(offset, bpm)], their row indices)"""
    vals = [(F(o), F(b)) for o, b in rows]
    order = sorted(range(len(vals)), key=lambda i: vals[i][0])
    keep = [i for k, i in enumerate(order) if k + 1 == len(order) or vals[order[k + 1]][0] != vals[i][0]]
    return [vals[i] for i in keep], keep


def overlapping(notes):
    """two holds/rolls of one column overlap in time (or touch): not expressible in a .sm column"""
    by = {}
    for n in notes:
        if n[0] in ("hold", "roll"):
            by.setdefault(n[1], []).append((n[2], n[2] + n[3]))
    for iv in by.values():
        iv.sort()
        for (a0, a1), (b0, b1) in zip(iv[:-1], iv[1:]):
            if b0 <= a1 + Fr(1, 2 ** 10):
                return True
    return False


def local_bpm(bpms, t):
    """bpm of the last tempo point at or before t (first point otherwise)"""
    cur = bpms[0][1]
    for o, b in bpms:
        if o <= t + Fr(1, 2 ** 20):
            cur = b
    return cur


def span_beat_len(bpms, t1, t2):
    """longest beat length (ms) of the tempo segments between the two times: a position error of x beats is a time
    error of at most x times this - the written row of an object at a tempo change lies in the segment before it"""
    lo, hi = min(t1, t2), max(t1, t2)
    bl = Fr(60000) / local_bpm(bpms, lo)
    for o, b in bpms:
        if lo < o <= hi + Fr(1, 2 ** 20):
            bl = max(bl, Fr(60000) / b)
    return bl


def on_grid(bpms, t):
    """is t (within 2^-30 beat) on the snap grid of denominators <= 96 relative to its active tempo point; returns
    (flag, absolute-beat-denominator-relevant fraction)"""
    act = bpms[0]
    for p in bpms:
        if p[0] <= t + Fr(1, 2 ** 20):
            act = p
    d = (t - act[0]) * act[1] / 60000
    fr = d - math.floor(d)
    g = Fr(fr).limit_denominator(96)
    return abs(g - fr) < Fr(1, 2 ** 30)


_GRID = None


def snap_info(bpms, t, prev=False):
    """where the writer's snapping puts the time t: (distance in beats to the nearest point of the snap grid of
    denominators <= 96, relative to the active tempo point; is t inside the float band of a discontinuity).  The
    discontinuities are the exact midpoint of two neighbouring grid points (the code's `left < right` on doubles may
    fall on either side, as in C10's tie_band: 2^-40 relative to the magnitudes involved) and the time of a tempo
    point (`bco.offset > offset` on doubles).  `prev`: t is itself a tempo point and is snapped relative to the point
    before it."""
    global _GRID
    if _GRID is None:
        _GRID = sorted({Fr(n, d) for d in range(1, 97) for n in range(0, d + 1)})
    import bisect
    act = None
    edge = False
    for p in bpms:
        if (p[0] < t) if prev else (p[0] <= t):
            act = p
        if not prev and abs(p[0] - t) <= Fr(1, 2 ** 40) * max(1, abs(t)) and p[0] != t:
            edge = True
    if act is None:
        return Fr(0), False
    bl = Fr(60000) / act[1]
    d = (t - act[0]) / bl
    fr = d - math.floor(d)
    i = bisect.bisect_left(_GRID, fr)
    if _GRID[i] == fr:
        return Fr(0), edge
    lo, hi = _GRID[i - 1], _GRID[i]
    band = Fr(1, 2 ** 40) * (1 + 2 * max(abs(t), abs(act[0])) / bl)
    tie = abs((fr - lo) - (hi - fr)) < 2 * band
    return min(fr - lo, hi - fr) + (band if tie else 0), tie or edge


def chart_ties(bpms, notes):
    """is any snapped time of the chart (object heads, hold/roll tails, the tempo points after the first) inside the
    float band of a snapping discontinuity?  Then the row count of its measure may be either of two values and the
    whole chart is judged in the 1/96-beat class, a different choice of rows being a float boundary, not a
    disagreement."""
    for n in notes:
        if snap_info(bpms, n[2])[1]:
            return True
        if n[0] in ("hold", "roll") and snap_info(bpms, n[2] + n[3])[1]:
            return True
    return any(snap_info(bpms, p[0], prev=True)[1] for p in bpms[1:])


def true_beats(bpms):
    """exact cumulative beat of every tempo point of the (time-sorted) list, the first one at beat 0"""
    out = [Fr(0)]
    for (o0, b0), (o1, _) in zip(bpms[:-1], bpms[1:]):
        out.append(out[-1] + (o1 - o0) * b0 / 60000)
    return out


def tempo_round_slack(bpms, raw_beats, t):
    """upper bound of the shift of an object at time t that comes from the written #BPMS beats not being the exact
    beats of the tempo points.  Tempo point i is written at beat w_i = round6(r_i), r_i its snapped beat
    (the model's `bpm_beats`), its exact beat being c_i; objects are placed relative to r_k of the active point k.  Then
        written time - t  =  sum_{i<=k} (w_i - c_i) * (bl_{i-1} - bl_i)  +  (r_k - c_k) * bl_k
    (bl = beat length): every moved change shifts what follows by the difference of the two beat lengths, and the
    snapping of the active point itself counts with the full beat length.  For tempo points on the grid r = c and only
    the six-decimal rounding remains (round6_err: at most 5e-7 beat per change)."""
    if len(raw_beats) != len(bpms):
        return Fr(0)
    c = true_beats(bpms)
    k = 0
    for i in range(1, len(bpms)):
        if bpms[i][0] <= t + Fr(1, 2 ** 20):
            k = i
    e = Fr(0)
    for i in range(1, k + 1):
        e += abs(round6(raw_beats[i]) - c[i]) * abs(Fr(60000) / bpms[i - 1][1] - Fr(60000) / bpms[i][1])
    e += abs(raw_beats[k] - c[k]) * (Fr(60000) / bpms[k][1])
    return e


def round6(q):
    """Python round(x, 6) on the exact value (half-even)"""
    x = q * 10 ** 6
    f = x.numerator // x.denominator
    r = x - f
    if r < Fr(1, 2):
        n = f
    elif r > Fr(1, 2):
        n = f + 1
    else:
        n = f if f % 2 == 0 else f + 1
    return Fr(n, 10 ** 6)


def tempo_on_lines(bpms):
    """every tempo point a whole number of 4-beat measures after the previous one (within 2^-30 beat)"""
    for (o0, b0), (o1, _) in zip(bpms[:-1], bpms[1:]):
        d = (o1 - o0) * b0 / 60000 / 4
        if abs(d - round(d)) > Fr(1, 2 ** 30):
            return False
    return True


def run(case, drv):
    logging.disable(logging.WARNING)
    tags = [case["origin"]] + ([case["style"], case["mode"]] if case["origin"] in ("built", "convert") else []) + \
        (["via-" + case["via"]] if case.get("via") else []) + (["rate"] if case.get("rate") else []) + \
        (["bpm-unsorted"] if case["origin"] == "built" and [F(r[0]) for r in ordered_bpms(case)] != sorted(F(r[0]) for r in case["bpms"]) else [])
    try:
        ms, ms_pre = build_mapset(case)
    except Exception as e:
        # the source mapset could not be produced (e.g. a read error): not this property's subject
        return dict(claim="write", ok=True, agree=True, dom=False, kf=None, tags=tags + ["no-mapset"], nontrivial=False,
                    detail=dict(exc=repr(e)[:200]))
    # every write of the history is judged: the first one, and one after each edit of the same object
    res = _judge(case, ms, ms_pre, drv, list(tags))
    for n, step in enumerate(case.get("history") or []):
        if not (res["ok"] and res["agree"]):
            break
        try:
            ms, pre = apply_step(ms, step)
        except Exception as e:
            res["tags"].append("step-failed")
            res["detail"] = dict(res.get("detail") or {}, step_exc=repr(e)[:200])
            break
        r2 = _judge(case, ms, pre, drv, list(tags) + ["after-" + str(step[0])])
        r2["nontrivial"] = bool(r2.get("nontrivial") or res.get("nontrivial"))
        r2["maxdev"] = max(r2.get("maxdev", 0.0), res.get("maxdev", 0.0))
        r2["boundary"] = bool(r2.get("boundary") or res.get("boundary"))
        r2["dom"] = bool(r2.get("dom") and res.get("dom"))
        if not (r2["ok"] and r2["agree"]):
            r2["detail"] = dict(r2.get("detail") or {}, failing_write=n + 2, step=step)
        res = r2
    return res


def _judge(case, ms, ms_pre, drv, tags):
    """one write of `ms` through the case's entry point"""
    import os
    import tempfile
    path = None
    if case.get("entry") == "file":
        fd, path = tempfile.mkstemp(prefix="c03-", suffix=".sm", dir="/tmp")
        os.close(fd)
        tags.append("write_file")
    try:
        return _judge_at(case, ms, ms_pre, drv, tags, path)
    finally:
        if path is not None:
            try:
                os.remove(path)
            except OSError:
                pass


def _judge_at(case, ms, ms_pre, drv, tags, path):
    """one write of `ms`: (C) the text's structure vs the model, (S) the text denotes the mapset.  `path`: write with
    `write_file(path)` and take the text from the file as it is on disk (no newline translation on reading)"""
    detail = {}
    content = extract(ms)
    # the property's domain (#OFFSET = first tempo point) is a condition on the mapset before a rate change
    dom_src = extract(ms_pre) if ms_pre is not None else content
    try:
        if path is None:
            text = ms.write()
        else:
            ms.write_file(path)
            with open(path, "r", encoding="utf8", newline="") as f:
                text = f.read()
        impl = ("ok", text)
    except Exception as e:
        impl = ("err", c02.err_class(e), type(e).__name__ + ": " + str(e)[:200])
    model = drv.call("c03.write", hdr=content["hdr"], charts=content["charts"])
    maxdev = 0.0
    boundary = False
    agree, ok = True, True
    why = []
    same_tempo = all(c["bpms"] == content["charts"][0]["bpms"] for c in content["charts"]) if content["charts"] else True
    first_off = content["charts"] and content["charts"][0]["bpms"] and min(F(b[0]) for b in content["charts"][0]["bpms"])
    src_first = dom_src["charts"] and dom_src["charts"][0]["bpms"] and min(F(b[0]) for b in dom_src["charts"][0]["bpms"])
    in_q = bool(content["charts"]) and same_tempo and content["charts"][0]["bpms"] != [] and \
        close(F(dom_src["hdr"]["offset"]), src_first) and all(c["chart_type"] in KEYED for c in content["charts"]) and \
        all(F(n[2]) >= first_off - Fr(1, 2 ** 20) and 0 <= n[1] < KEYED[c["chart_type"]]
            for c in content["charts"] for n in c["notes"])
    # two tempo points closer than the snap grid / the six decimals resolve are written at one beat: such a tempo list
    # has no .sm form (domain: tempo points at distinct written beats).  Rows at exactly one offset are something else:
    # they are one tempo point, the row that comes later in the list being in force (`to_timing_map` sorts stably and
    # the sweep finds the last row of equal offsets; in the file a later `#BPMS` entry on a beat replaces an earlier one)
    wb = [round6(F(x)) for x in ((model.get("ok") or {}).get("bpm_beats") or [])]
    rows0 = content["charts"][0]["bpms"] if content["charts"] else []
    n_offs = len({F(b[0]) for b in rows0})
    has_ties = n_offs < len(rows0)
    if len(wb) == len(rows0) and len(set(wb)) < n_offs:
        in_q = False
        tags.append("tempo-coincide")
    if has_ties:
        tags.append("tempo-tie")
    if len(rows0) >= 17:
        tags.append("tempo-long")
    if impl[0] == "err":
        agree = model.get("err") == impl[1]
        if in_q:
            ok = False
            why.append("writer raised: " + impl[2])
        detail = dict(impl=list(impl), model=model)
        return dict(claim="write", ok=ok, agree=agree, dom=False, kf=None, tags=tags + ["impl-raises"], nontrivial=False, detail=detail)
    den = drv.call("c03.denote", text=text)["ok"]
    # snapping discontinuities of THIS snapshot (every write of a history is classified on the chart as it is now)
    bp_now = effective_rows(content["charts"][0]["bpms"])[0] if content["charts"] else []
    ties = [bool(bp_now) and all(b > 0 for _, b in bp_now) and chart_ties(bp_now, c02.jnotes(c["notes"]))
            for c in content["charts"]]
    # ---------------- (C) structure of the text vs the model
    if "ok" not in model or den is None:
        agree = False
    else:
        w = model["ok"]
        vals = {v[0]: v[1:] for v in den["values"] if v}
        for tag, val in w["strs"].items():
            if vals.get(tag, [None])[0] != val:
                agree = False
        if den["offset_sec"] is None or not close(F(den["offset_sec"]), F(w["offset_sec"])):
            agree = False
        for tag, key in (("SAMPLESTART", "sample_start_sec"), ("SAMPLELENGTH", "sample_length_sec")):
            try:
                if not close(Fr(vals[tag][0]), F(w[key])):
                    agree = False
            except Exception:
                agree = False
        if vals.get("SELECTABLE", [None])[0] != w["selectable"]:
            agree = False
        db = den["bpms"] or []
        if len(db) != len(w["bpms"]):
            agree = False
        else:
            for (b1, v1), (b2, v2), raw in zip(db, w["bpms"], w["bpm_beats"]):
                if not close(F(v1), F(v2)):
                    agree = False
                if F(b1) != F(b2):
                    tie = (F(raw) * 10 ** 6) % 1 == Fr(1, 2)
                    if tie and abs(F(b1) - F(b2)) <= Fr(1, 10 ** 6):
                        boundary = True
                    else:
                        agree = False
        if len(den["charts"]) != len(w["charts"]):
            agree = False
        else:
            for cd, cw, dg, tie in zip(den["charts"], w["charts"], w["diag"], ties):
                if (cd["chart_type"], cd["description"], cd["difficulty"], cd["meter"]) != \
                        (cw["chart_type"], cw["description"], cw["difficulty"], cw["difficulty_val"]):
                    agree = False
                if cd["radar"] is None or len(cd["radar"]) != len(cw["groove"]) or \
                        any(not close(F(a), F(b)) for a, b in zip(cd["radar"], cw["groove"])):
                    agree = False
                if [m for m in cd["measures"] if m] != [m for m in cw["measures"] if m]:
                    if (dg and dg["near_int"]) or tie:
                        boundary = True
                    else:
                        agree = False
    # ---------------- (C') the text itself: the model's `renderWritten` with Python's number rendering supplied as a
    # table (value -> repr(float(value))) must be the implementation's text, character for character
    if agree and not boundary and "ok" in model:
        w = model["ok"]
        # value -> text.  The three second-valued header fields are rendered from the double the writer computes
        # (`x * (1.0 / 1000.0)`, not the correctly rounded x/1000 of the exact model value); everything else is the
        # repr of the double nearest to the model's value (bpm, groove: the stored double; #BPMS beats: round(…, 6))
        h = content["hdr"]
        table = {}
        clash = False

        def put(q, txt):
            nonlocal clash
            if table.setdefault(q, txt) != txt:
                clash = True
        for key, src, sign in (("offset_sec", "offset", -1), ("sample_start_sec", "sample_start", 1), ("sample_length_sec", "sample_length", 1)):
            x = sign * (float(F(h[src])) * (1.0 / 1000.0))
            put(F(w[key]), repr(x) if x != 0 else "0.0")
        for v in [x for p in w["bpms"] for x in p] + [g for c in w["charts"] for g in c["groove"]]:
            put(F(v), repr(float(F(v))))
        nums = [[R(q), t] for q, t in table.items()]
        m2 = drv.call("c03.write", hdr=content["hdr"], charts=content["charts"], nums=nums)
        mtext = (m2.get("ok") or {}).get("text")
        # (the sign of a zero offset - "#OFFSET:-0.0;" - is outside the rational model)
        if clash:
            tags.append("text-not-compared")
        elif mtext is None or mtext != text.replace("#OFFSET:-0.0;", "#OFFSET:0.0;"):
            agree = False
            detail["model_text"] = (mtext or "")[:3000]
            tags.append("text-differs")
    if not agree:
        detail["model"] = model
        detail["text"] = text[:3000]

    # ---------------- (S) the text denotes the mapset
    nontrivial = False
    dom = False
    if in_q:
        if den is None or not den["charts_well_formed"] or den["offset_sec"] is None or \
                not (den["tempo_ok_weak"] if has_ties else den["tempo_ok"]):
            ok = False
            why.append("written text is not a well-formed .sm (MSD values / #NOTES parameters / #BPMS / #OFFSET)")
        elif len(den["charts"]) != len(content["charts"]):
            ok = False
            why.append("chart count")
        else:
            h = content["hdr"]
            vals = {v[0]: v[1:] for v in den["values"] if v}
            clean = lambda s: isinstance(s, str) and s == s.strip() and not any(ch in s for ch in ";:#\\\n") and "//" not in s
            for tag, attr in ATTR.items():
                if clean(h["strs"][attr]) and vals.get(tag, [None])[0] != h["strs"][attr]:
                    ok = False
                    why.append("header %s not read back" % tag)
            if not close(-1000 * F(den["offset_sec"]), F(h["offset"]), abs_=Fr(1, 2 ** 30)):
                ok = False
                why.append("#OFFSET does not denote the mapset offset")
            for tag, key in (("SAMPLESTART", "sample_start"), ("SAMPLELENGTH", "sample_length")):
                try:
                    if not close(1000 * Fr(vals[tag][0]), F(h[key]), abs_=Fr(1, 2 ** 30)):
                        ok = False
                        why.append(tag)
                except Exception:
                    ok = False
                    why.append(tag + " missing")
            sel = vals.get("SELECTABLE", [None])[0]
            if sel != ("YES" if h["selectable"] else "NO"):
                ok = False
                why.append("#SELECTABLE written as %r for selectable=%r" % (sel, h["selectable"]))
            # the tempo points in force, in time order (of rows at one offset the last one of the list)
            bp, order = effective_rows(content["charts"][0]["bpms"])
            lines = tempo_on_lines(bp)
            skipped = False
            raw_beats = [F(x) for x in ((model.get("ok") or {}).get("bpm_beats") or [])]
            raw_sorted = [raw_beats[i] for i in order] if len(raw_beats) == len(content["charts"][0]["bpms"]) else []
            lossy = len(raw_sorted) == len(bp) and any(round6(r) != c for r, c in zip(raw_sorted, true_beats(bp)))
            for n, (cd, cc, dg, tie) in enumerate(zip(den["charts"], content["charts"],
                                                      (model.get("ok") or {}).get("diag") or [None] * len(den["charts"]), ties)):
                if (cd["chart_type"], cd["description"], cd["difficulty"], cd["meter"]) != \
                        (cc["chart_type"], cc["description"], cc["difficulty"], cc["difficulty_val"]):
                    if clean(cc["description"]) and clean(cc["difficulty"]):
                        ok = False
                        why.append("chart %d header" % n)
                if not cd["well_bracketed"]:
                    # overlapping holds in one column cannot be expressed; outside the domain when the mapset has them
                    pass
                exp = sorted(c02.jnotes(cc["notes"]), key=c02.notes_key)
                got = sorted(c02.jnotes(cd["notes"] or []), key=c02.notes_key)
                collision = bool(dg and dg["collision"])
                if collision or overlapping(exp) or not cd["well_bracketed"]:
                    # two objects in one cell / overlapping holds in one column: outside the property's domain
                    tags.append("collision" if collision else "overlap")
                    skipped = True
                    continue
                if len(exp) != len(got) or any(a[0] != b[0] or a[1] != b[1] for a, b in zip(exp, got)):
                    ok = False
                    why.append("chart %d: objects / kinds / columns differ (%d written, %d in memory)" % (n, len(got), len(exp)))
                    continue
                for a, b in zip(exp, got):
                    bl = span_beat_len(bp, a[2], b[2])
                    # one row of the capped measure (row_error_lt_one) on top of the snapping distance of an off-grid time
                    lim = bl / 96 + bl * snap_info(bp, a[2])[0] + Fr(1, 2 ** 20)
                    exact = lines and on_grid(bp, a[2]) and bool(dg and dg["exact_rows"]) and not tie
                    tol = Fr(1, 2 ** 20) * max(1, abs(a[2])) / 1000 + Fr(1, 2 ** 20)
                    d = abs(a[2] - b[2])
                    maxdev = max(maxdev, float(d)) if exact else maxdev
                    # the 6-decimal rendering of the #BPMS beats (round6_err: at most 5e-7 beat per change, exactly
                    # 1/3e-6 for thirds of the 1/48 grid) is part of the tolerance, like the float rendering
                    slack = tempo_round_slack(bp, raw_sorted, max(a[2], b[2])) if lossy else 0
                    if d > (tol if exact else lim + slack):
                        ok = False
                        why.append("chart %d: %s col %d at %.6f ms written at %.6f ms (%s)" %
                                   (n, a[0], a[1], float(a[2]), float(b[2]), "exact regime" if exact else "limit 1/96 beat"))
                        break
                    if a[0] in ("hold", "roll"):
                        ea, eb = a[2] + a[3], b[2] + b[3]
                        ble = span_beat_len(bp, ea, eb)
                        exact_e = lines and on_grid(bp, ea) and bool(dg and dg["exact_rows"]) and not tie
                        slack_e = tempo_round_slack(bp, raw_sorted, max(ea, eb)) if lossy else 0
                        if abs(ea - eb) > (tol if exact_e else ble / 96 + ble * snap_info(bp, ea)[0] + slack_e + Fr(1, 2 ** 20)):
                            ok = False
                            why.append("chart %d: %s col %d tail at %.6f ms written at %.6f ms" % (n, a[0], a[1], float(ea), float(eb)))
                            break
            # reading the written text back gives these objects again
            back = c02.impl_read(text, path=path)
            if back[0] != "ok" and skipped:
                pass
            elif back[0] != "ok":
                ok = False
                why.append("reading the written text back failed: %r" % (back[1:],))
            elif ok and not skipped:
                for n, (cd, cb) in enumerate(zip(den["charts"], back[1]["charts"])):
                    e, md = c02.cmp_notes(cb["notes"], c02.jnotes(cd["notes"] or []))
                    if not e and cd["rows_mult4"] and cd["well_bracketed"] and den["tempo_on_grid"]:
                        ok = False
                        why.append("chart %d: read(write(ms)) differs from the denotation of the text" % n)
                if back[1]["hdr"]["selectable"] != h["selectable"]:
                    ok = False
                    why.append("selectable read back as %r" % back[1]["hdr"]["selectable"])
            nn = sum(len(c["notes"]) for c in content["charts"])
            nontrivial = nn >= 3 and (any(n[0] in ("hold", "roll") for c in content["charts"] for n in c["notes"]) or len(bp) >= 2
                                      or case.get("style") == "capped")
            all_on = all(on_grid(bp, F(n[2])) and (n[0] not in ("hold", "roll") or on_grid(bp, F(n[2]) + F(n[3])))
                         for c in content["charts"] for n in c["notes"])
            dom = lines and all_on and not any(ties) and not skipped and not has_ties and \
                all(bool(d and d["exact_rows"] and not d["collision"]) for d in ((model.get("ok") or {}).get("diag") or [None]))
    kf = None
    if not ok:
        detail["why"] = why
        detail["text"] = text[:3000]
        detail["content"] = content
    if any(ties):
        tags.append("snap-tie")
    return dict(claim="write", ok=ok, agree=agree, dom=bool(dom), kf=kf, tags=tags, nontrivial=bool(nontrivial), maxdev=maxdev,
                boundary=boundary, detail=detail)
