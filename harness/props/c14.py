"""C14 — query, generate, convert and write operations never modify their inputs.

What is proved (lean/Reamber/Props/C14.lean) is about an *effect model*: a heap of frames, operations given by
effect signatures (Model/Effects.lean: `opTable`), histories of calls and client mutations.  What ties the model to
the code is OBSERVED here, per generated history:

* every mutable object reachable from any pool object (DataFrame, Series, ndarray, list, dict, reamber object) is a
  heap cell with an address (by object identity, objects are kept alive for the whole history) and a deep snapshot
  (kind/index class, columns + dtypes, row labels, type-tagged exact cell values, dataclass fields);
* before/after every real call the whole pool is re-snapshotted (observed writes), the result is walked (fresh cells
  vs cells already in the heap), `np.shares_memory` is evaluated between every buffer of a new result cell and every
  buffer in the heap (aliasing = the aliased old cell is counted as reachable from the result);
* results of operations whose signature says `copy` are mutated in place (every buffer, every mutable container, the
  row labels buffer) and the pool is re-snapshotted (`mutate-the-result-then-re-snapshot`), then restored; results made
  by deepcopy get two more probes: the cell objects inside object columns get a member (probe 2), and everything INSIDE
  the cell objects and containers is edited at every depth (probe 3: record fields, nested lists, scalar members).

The observation is sent to the Lean driver (`c14.check`), which evaluates the SAME definitions the theorems are stated
against (`Spec.Effects.frameB`, `freshB`; `Model.Effects.within`, `run`).
  ok    = Spec holds on the observation (arguments identical; copy results fresh, mutation does not reach the heap)
  agree = the observed behaviour lies within the signature the model's table assigns and the model's run over the
          observed history is legal and ends in the observed heap.
"""
import hashlib
import json
import os
import warnings

ID = "C14"
QUICK_N = 360
THOROUGH_N = 15000
QUICK_BUDGET_S = 80
THOROUGH_BUDGET_S = 900
RULE = ("histories of 1-10 operations over charts of the five games (0-12 hits, 0-8 holds, 1-4 tempo points, SVs, samples, "
        "extra StepMania lists; default, permuted and gapped row labels; list-valued cells and list-valued metadata); every "
        "operation of the model's table is drawn (filters/sort/append/move/copy on all 24 list classes, rate, 17 converter "
        "entry points, 4 writers, full_ln, hitsound_copy, sv_normalize, scroll_speed, dominant_bpm, Pattern.from_note_lists/"
        "group/combinations, two sharing operations as negative controls; `append` is given a list of the same class, any other "
        "list of the pool, a cut-down list or a hand-made DataFrame, all snapshotted as arguments; lists are built from a frame, "
        "by `from_dict` or by `empty`+assignment; 45% of the steps take the newest compatible object of the pool, i.e. "
        "second-generation inputs; move targets are arbitrary or the list's current first/last offset, empty lists included; "
        "Quaver notes carry 0-4 key sounds in arbitrary order: names, {Sample, Volume} records as `QuaMap.read` hands them over, records "
        "holding further lists / records, lists of lists (mutable state at depth 2-4 inside one cell); a third of the Quaver charts "
        "reach the pool through `QuaMap.read` of their own text; every deepcopy-based result is changed in place at every depth — "
        "cells replaced, cell lists appended to, every record field / nested element edited — and the whole pool re-observed; "
        "the rest of the public surface of TimedList/HoldList/BpmList/Map/MapSet/ConvertBase/Pattern is drawn too: int/iloc/loc "
        "indexing, iteration, from_dict (client dicts of columns or of rows), empty, df, column getters, to_numpy, describe, "
        "first/last offsets, time_diff, len, repr, the five comparisons, head/tail_offset, current_bpm, snap_offsets, "
        "to_timing_map, ave_bpm, cast (with the caller's mapping dict), m[Class]/m.hits/m.notes, metadata, describe, stack, "
        "iteration/items/indexing of sets, write_file of the four writers (temporary directory), Pattern.v_mask/h_mask/len; "
        "the class-level list defaults of `_props` are cells of the heap from the start); distinct = distinct canonical JSON; non-trivial = "
        "at least one call returned and its arguments held at least one non-empty frame")
ASSUMPTIONS = [
    "effect signatures are observed, not proved: the theorems are about any behaviour within the table's signatures, the "
    "harness observes that every real call stays within its signature (DESIGN §6 C14, §11)",
    "sharing through state the deep snapshot does not reach (C extension internals, module globals) is not observed; "
    "arguments are dataclasses of DataFrames, containers and scalars and are walked completely",
    "row-label Index objects are immutable by pandas' contract: they are part of every snapshot but two frames holding the "
    "same Index buffer are not counted as sharing mutable state",
]
TRUSTED_EXTRA = ["C14: object walker / snapshot / np.shares_memory aliasing / in-place mutation probe in harness/props/c14.py"]

GAMES = ["osu", "quaver", "sm", "bms", "o2jam"]

_TABLE = {}


# ============================================================================================ classes

def K(game):
    """classes of one game"""
    if game == "osu":
        from reamber.osu.OsuMap import OsuMap
        from reamber.osu.lists import OsuBpmList, OsuSvList, OsuSampleList
        from reamber.osu.lists.notes import OsuHitList, OsuHoldList
        return dict(map=OsuMap, lists=dict(hits=OsuHitList, holds=OsuHoldList, bpms=OsuBpmList, svs=OsuSvList),
                    extra=dict(samples=OsuSampleList))
    if game == "quaver":
        from reamber.quaver.QuaMap import QuaMap
        from reamber.quaver.lists import QuaBpmList, QuaSvList
        from reamber.quaver.lists.notes import QuaHitList, QuaHoldList
        return dict(map=QuaMap, lists=dict(hits=QuaHitList, holds=QuaHoldList, bpms=QuaBpmList, svs=QuaSvList), extra={})
    if game == "sm":
        from reamber.sm.SMMap import SMMap
        from reamber.sm.SMMapSet import SMMapSet
        from reamber.sm import lists as L
        from reamber.sm.lists import notes as N
        return dict(map=SMMap, set=SMMapSet,
                    lists=dict(hits=N.SMHitList, holds=N.SMHoldList, bpms=L.SMBpmList, fakes=N.SMFakeList, lifts=N.SMLiftList,
                               keysounds=N.SMKeySoundList, mines=N.SMMineList, rolls=N.SMRollList, stops=L.SMStopList),
                    extra={})
    if game == "bms":
        from reamber.bms.BMSMap import BMSMap
        from reamber.bms.lists import BMSBpmList
        from reamber.bms.lists.notes import BMSHitList, BMSHoldList
        return dict(map=BMSMap, lists=dict(hits=BMSHitList, holds=BMSHoldList, bpms=BMSBpmList), extra={})
    if game == "o2jam":
        from reamber.o2jam.O2JMap import O2JMap
        from reamber.o2jam.O2JMapSet import O2JMapSet
        from reamber.o2jam.lists import O2JBpmList
        from reamber.o2jam.lists.notes import O2JHitList, O2JHoldList
        return dict(map=O2JMap, set=O2JMapSet, lists=dict(hits=O2JHitList, holds=O2JHoldList, bpms=O2JBpmList), extra={})
    raise ValueError(game)


SLOTS = dict(osu=["hits", "holds", "bpms", "svs", "samples"], quaver=["hits", "holds", "bpms", "svs"],
             sm=["hits", "holds", "bpms", "fakes", "lifts", "keysounds", "mines", "rolls", "stops"],
             bms=["hits", "holds", "bpms"], o2jam=["hits", "holds", "bpms"])
HOLDLIKE = {"holds", "rolls"}
CONVERTERS = dict(osu=["OsuToQua", "OsuToSM", "OsuToBMS"], quaver=["QuaToOsu", "QuaToSM", "QuaToBMS"],
                  sm=["SMToOsu", "SMToQua", "SMToBMS"], bms=["BMSToOsu", "BMSToQua", "BMSToSM"],
                  o2jam=["O2JToOsu", "O2JToQua", "O2JToSM", "O2JToBMS"])
TARGET = dict(Osu="osu", Qua="quaver", SM="sm", BMS="bms")


def conv_target(name):
    return TARGET[name.split("To")[1]]


# ============================================================================================ generators

E_BPMS = [60, 75, 100, 120, 150, 160, 187.5, 200, 240, 300]


def g_off(rng, hi=6000):
    r = rng.random()
    if r < 0.7:
        return rng.randrange(0, hi, 25)
    if r < 0.9:
        return rng.randrange(0, hi * 2) / 2
    return rng.randrange(-400, hi)


def gen_labels(rng, n):
    r = rng.random()
    if r < 0.55 or n == 0:
        return "range"
    if r < 0.8:
        p = list(range(n))
        rng.shuffle(p)
        return p
    xs = sorted(rng.sample(range(0, 3 * n + 5), n))
    if rng.random() < 0.5:
        rng.shuffle(xs)
    return xs


KS_NAMES = ["snare.wav", "kick.wav", "hat.wav", "a.ogg", "z.wav", "b.ogg"]


def gen_keysounds(rng):
    """key sounds of one note: none, one, or several in ARBITRARY order; file names or the reader's
    `{Sample, Volume}` entries"""
    r = rng.random()
    k = 0 if r < 0.4 else 1 if r < 0.6 else rng.choice([2, 2, 3, 4])
    r = rng.random()
    if r < 0.3:
        # records, as `QuaMap.read` hands them over unchanged (mutable state at depth 2 of the cell)
        return [dict(Sample=rng.randint(1, 9), Volume=rng.choice([20, 50, 100])) for _ in range(k)]
    if r < 0.4:
        # what a client may build: records that hold further lists / records (depth 3, 4), lists of lists
        out = []
        for _ in range(k):
            q = rng.random()
            if q < 0.4:
                out.append(dict(Sample=rng.randint(1, 9), Volume=rng.choice([20, 50, 100]),
                                Layers=[rng.choice(KS_NAMES) for _ in range(rng.randint(0, 2))]))
            elif q < 0.7:
                out.append(dict(Sample=rng.randint(1, 9), Opt=dict(Pan=rng.choice([0, 5]), Fx=[rng.randint(0, 3)])))
            else:
                out.append([rng.choice(KS_NAMES), [rng.randint(0, 3)]])
        return out
    return [rng.choice(KS_NAMES) for _ in range(k)]


def gen_list(rng, game, slot, keys, n, flags=None):
    """column -> values (only the columns that are not left at their default)"""
    d = {}
    offs = [g_off(rng) for _ in range(n)]
    if rng.random() < 0.25 and n > 1:          # duplicates (chords, ties for sorting)
        for i in range(1, n):
            if rng.random() < 0.5:
                offs[i] = offs[i - 1]
    d["offset"] = offs
    if slot in ("hits", "holds", "fakes", "lifts", "keysounds", "mines", "rolls"):
        d["column"] = [rng.randrange(keys) for _ in range(n)]
    if slot in HOLDLIKE:
        d["length"] = [rng.choice([1, 50, 125, 12.5, 400, 1000, 0]) for _ in range(n)]
    if slot == "stops":
        d["length"] = [rng.choice([50, 125, 250]) for _ in range(n)]
    if slot == "bpms":
        d["bpm"] = [rng.choice(E_BPMS) for _ in range(n)]
        if n:
            offs[0] = min(offs)          # keep the list mostly starting with its first point
            if rng.random() < 0.8:
                offs[0] = min(0, offs[0])
        if rng.random() < 0.3:
            d["metronome"] = [rng.choice([3, 4, 4, 5, 6]) for _ in range(n)]
        if game == "osu" and rng.random() < 0.4:
            d["kiai"] = [rng.random() < 0.5 for _ in range(n)]
            d["volume"] = [rng.choice([0, 30, 100]) for _ in range(n)]
    if slot == "svs":
        d["multiplier"] = [rng.choice([0.5, 0.75, 1, 1.25, 2, 10]) for _ in range(n)]
    if slot == "samples":
        d["sample_file"] = [rng.choice(["a.wav", "b.ogg", "clap.wav"]) for _ in range(n)]
        d["volume"] = [rng.choice([0, 40, 100]) for _ in range(n)]
    if game == "osu" and slot in ("hits", "holds") and rng.random() < 0.6:
        d["hitsound_set"] = [rng.choice([0, 0, 2, 4, 8, 6, 14]) for _ in range(n)]
        d["volume"] = [rng.choice([0, 30, 70]) for _ in range(n)]
        d["hitsound_file"] = [rng.choice(["", "", "hs.wav", "x.ogg"]) for _ in range(n)]
        if rng.random() < 0.4:
            d["sample_set"] = [rng.choice([0, 1, 2]) for _ in range(n)]
            d["addition_set"] = [rng.choice([0, 1, 3]) for _ in range(n)]
            d["custom_set"] = [rng.choice([0, 0, 5]) for _ in range(n)]
    if game == "quaver" and slot in ("hits", "holds"):
        if (flags or {}).get("qua_lists", rng.random() < 0.3):        # list-valued cells (what the reader produces)
            d["keysounds"] = [gen_keysounds(rng) for _ in range(n)]
    if game == "bms" and slot in ("hits", "holds") and (flags or {}).get("bms_bytes", True):
        d["sample"] = ["%02d" % rng.randrange(1, 40) for _ in range(n)]      # bytes on construction
    if game == "o2jam" and slot in ("hits", "holds") and rng.random() < 0.5:
        d["volume"] = [rng.randrange(0, 16) for _ in range(n)]
        d["pan"] = [rng.randrange(0, 16) for _ in range(n)]
    return dict(cols=d, labels=gen_labels(rng, n), build=rng.choice(["frame", "frame", "frame", "from_dict", "from_dict", "empty"]))


def gen_map(rng, game, keys, small=False, large=False):
    top_h, top_l = (4, 3) if small else (30, 16) if large else (12, 8)
    lists = {}
    flags = dict(qua_lists=rng.random() < 0.45, bms_bytes=rng.random() < 0.92)
    for slot in SLOTS[game]:
        if slot == "hits":
            n = rng.randint(0, top_h)
        elif slot == "holds":
            n = rng.randint(0, top_l)
        elif slot == "bpms":
            n = rng.randint(1, 4)
        elif slot in ("svs", "samples"):
            n = rng.choice([0, 0, 1, 2, 5])
        else:
            n = rng.choice([0, 0, 0, 1, 3])
        lists[slot] = gen_list(rng, game, slot, keys, n, flags)
    if not lists["hits"]["cols"]["offset"] and not lists["holds"]["cols"]["offset"]:
        lists["hits"] = gen_list(rng, game, "hits", keys, rng.randint(1, 4), flags)
    out = dict(lists=lists, meta=gen_meta(rng, game, keys, True))
    if game == "quaver":
        # a third of the Quaver charts reach the pool through the real reader (`QuaMap.read` of the chart's own text):
        # cells, records and metadata are then the objects the reader makes
        out["via"] = rng.choice(["build", "build", "read"])
    return out


def gen_meta(rng, game, keys, per_map):
    t = rng.choice(["Song", "A:B", "t"])
    if game == "osu":
        return dict(title=t, artist="art", creator="c", version="v", circle_size=keys, preview_time=rng.choice([-1, 1500]),
                    tags=rng.choice(["", "", "", "a b", [], ["x", "y"]]), audio_file_name="a.mp3")
    if game == "quaver":
        return dict(title=t, artist="art", creator="c", difficulty_name="v", mode=f"Keys{keys}" if keys in (4, 7) else "Keys4",
                    tags=rng.choice([[], ["p", "q"]]), audio_file="a.mp3")
    if game == "bms":
        return dict(title=t, artist="art", version="v")
    if game == "sm":
        if per_map:
            return dict(chart_type={4: "dance-single", 6: "dance-solo", 7: "kb7-single", 8: "dance-double"}.get(keys, "dance-single"),
                        difficulty="Hard", difficulty_val=rng.randint(1, 20))
        return dict(title=t, artist="art", credit="c", music="a.mp3", offset=rng.choice([0.0, -12.5, 100.0]),
                    sample_start=rng.choice([0.0, 12.5]))
    if game == "o2jam":
        if per_map:
            return {}
        return dict(title=t, artist="art", creator="c", level=[rng.randint(1, 60) for _ in range(4)])
    raise ValueError(game)


LIST_OPS = ["list.after", "list.before", "list.between", "list.mask", "list.sorted", "list.append", "list.append_item",
            "list.move_start_to", "list.move_end_to", "list.deepcopy", "list.wrap", "list.slice"]


# the rest of the public surface of TimedList / HoldList / BpmList (queries, constructors, accessors)
LIST_OPS += ["list.getitem_int", "list.iter", "list.from_dict", "list.empty", "list.df", "list.column", "list.to_numpy",
             "list.describe", "list.first_offset", "list.last_offset", "list.first_last_offset", "list.time_diff",
             "list.len", "list.repr", "list.cmp", "hold.head_offset", "hold.tail_offset", "bpm.current_bpm",
             "bpm.snap_offsets", "bpm.to_timing_map", "bpm.ave_bpm", "list.cast", "list.iloc", "list.loc"]
LISTLIKE = ("list.", "hold.", "bpm.")
MAP_OPS = ["map.getitem", "map.metadata", "map.describe", "map.stack", "map.repr", "map.metadata_in_set", "map.describe_in_set"]
SET_OPS = ["mapset.iter", "mapset.items", "mapset.getitem", "mapset.describe", "mapset.stack", "mapset.repr"]
WRITERS = dict(osu="map", quaver="map", bms="map", sm="mapset")


def is_listop(op):
    return op.startswith(LISTLIKE)


def applicable_ops(game, kinds):
    """ops applicable to a (statically simulated) pool: kinds = list of (kind, game)"""
    ops = []
    has = lambda k, g=None: any(kk == k and (g is None or gg == g) for kk, gg in kinds)
    if has("map") or has("list"):
        ops += LIST_OPS
    for g in GAMES:
        if has("map", g):
            ops += ["map.deepcopy", "map.rate", "alg.full_ln", "alg.scroll_speed", "alg.dominant_bpm", "ptn.from_note_lists"]
            # charts of StepMania / O2Jam describe themselves with the set they belong to as a second argument
            ops += [o for o in MAP_OPS if o.endswith("_in_set") == (g in ("sm", "o2jam"))]
            if g in ("osu", "quaver"):
                ops += ["alg.sv_normalize"]
            if g == "osu":
                ops += ["alg.hitsound_copy"]
            if g in ("osu", "quaver", "bms"):
                ops += [f"write.{g}", f"write_file.{g}"] + [f"conv.{c}.convert" for c in CONVERTERS[g]]
        if has("mapset", g):
            ops += ["mapset.deepcopy", "mapset.rate"] + SET_OPS
            ops += [f"conv.{c}.convert" for c in CONVERTERS[g]]
            if g == "sm":
                ops += ["write.sm", "write_file.sm"]
            if g == "o2jam":
                ops += ["conv.O2JToSM.convert_merge"]
    if has("pattern"):
        ops += ["ptn.group", "ptn.len", "ptn.v_mask", "ptn.h_mask"]
    if has("groups"):
        ops += ["ptn.combinations"]
    return sorted(set(ops))


def result_kinds(op, game_of_src):
    """static (kind, game) entries a successful call adds to the pool"""
    if is_listop(op):
        return [("list", game_of_src)]
    if op in ("map.deepcopy", "map.rate", "alg.full_ln", "alg.hitsound_copy"):
        return [("map", game_of_src)]
    if op in ("mapset.deepcopy", "mapset.rate"):
        return [("mapset", game_of_src), ("map", game_of_src)]
    if op == "alg.sv_normalize":
        return [("list", game_of_src)]
    if op == "ptn.from_note_lists":
        return [("pattern", game_of_src)]
    if op == "ptn.group":
        return [("groups", game_of_src)]
    if op.startswith("conv."):
        tgt = conv_target(op.split(".")[1])
        if tgt == "sm":
            return [("mapset", "sm"), ("map", "sm")]
        return [("map", tgt)]
    return []


def gen_step(rng, op, game):
    a = {}
    if op in ("list.after", "list.before"):
        a = dict(offset=g_off(rng), include_end=rng.random() < 0.5, flag=rng.random() < 0.5)
    elif op == "list.between":
        lo = g_off(rng)
        a = dict(lo=lo, hi=lo + rng.choice([0, 100, 1000, 5000]), ends=[rng.random() < 0.5, rng.random() < 0.5],
                 head=rng.random() < 0.5, tail=rng.random() < 0.5)
    elif op == "list.mask":
        a = dict(bits=rng.getrandbits(16), all=rng.random() < 0.15)
    elif op == "list.sorted":
        a = dict(reverse=rng.random() < 0.3)
    elif op == "list.append":
        # what is appended: a list of the same class, ANY list of the pool (narrower / wider / other game), a list of
        # the same class cut down to some of its columns, or a hand-made DataFrame with some of the columns
        a = dict(sort=rng.random() < 0.4, mode=rng.choice(["same", "any", "any", "narrow", "frame"]), cols=rng.getrandbits(12),
                 rows=rng.randint(0, 3))
    elif op == "list.append_item":
        a = dict(sort=rng.random() < 0.4, offset=g_off(rng))
    elif op in ("list.move_start_to", "list.move_end_to"):
        # target: arbitrary, or a boundary value — the list's current first / last offset (tail included for holds),
        # where nothing moves and the result must still be a new object
        a = dict(to=g_off(rng), at=rng.choice(["any", "any", "first", "last", "same"]))
    elif op == "list.slice":
        a = dict(a=rng.randint(0, 3), b=rng.randint(2, 8))
    elif op == "list.getitem_int":
        a = dict(i=rng.randrange(0, 64))
    elif op == "list.from_dict":
        # the client's own dict of columns / list of row dicts, cut from a list of the pool
        a = dict(rows_form=rng.random() < 0.4, cols=rng.getrandbits(12), rows=rng.randint(0, 4))
    elif op == "list.empty":
        a = dict(rows=rng.randint(0, 3))
    elif op == "list.column":
        a = dict(i=rng.randrange(0, 16))
    elif op in ("list.iloc", "list.loc"):
        a = dict(a=rng.randint(0, 3), b=rng.randint(1, 8), fancy=rng.random() < 0.5)
    elif op in ("list.time_diff", "bpm.ave_bpm"):
        a = dict(last=rng.choice([None, None, 7000, 12345.5]))
    elif op == "list.cmp":
        a = dict(rel=rng.choice(["eq", "gt", "ge", "lt", "le"]), self_=rng.random() < 0.5)
    elif op == "bpm.current_bpm":
        a = dict(offset=g_off(rng), sort=rng.random() < 0.7)
    elif op == "bpm.snap_offsets":
        a = dict(nths=rng.choice([1, 2, 4, 0.5]), last=rng.choice([None, 7000, 9000.5]))
    elif op == "list.cast":
        a = dict(target=rng.choice(GAMES), literal=rng.random() < 0.4)
    elif op == "map.getitem":
        a = dict(what=rng.choice(["hits", "holds", "bpms", "NoteList", "TimedList", "p_hits", "p_holds", "p_bpms", "notes"]))
    elif op in ("map.metadata", "map.metadata_in_set"):
        a = dict(unicode=rng.random() < 0.5)
    elif op in ("map.describe", "mapset.describe", "map.describe_in_set"):
        a = dict(rounding=rng.choice([2, 0]), unicode=rng.random() < 0.5)
    elif op == "mapset.getitem":
        a = dict(what=rng.choice(["int", "hits", "bpms", "NoteList"]), i=rng.randrange(0, 4))
    elif op == "ptn.v_mask":
        a = dict(offset=g_off(rng), v=rng.choice([0, 50, 1000]), jack=rng.random() < 0.5)
    elif op == "ptn.h_mask":
        a = dict(column=rng.randrange(0, 8), h=rng.choice([0, 1, 2]))
    elif op in ("map.rate", "mapset.rate"):
        a = dict(by=rng.choice([0.5, 2, 1.25, 1, 0.75]))
    elif op == "alg.full_ln":
        a = dict(gap=rng.choice([150, 50, 0]), thres=rng.choice([100, 25]))
    elif op in ("alg.sv_normalize", "alg.scroll_speed"):
        a = dict(override=rng.choice([None, None, 120, 200]))
    elif op == "ptn.from_note_lists":
        a = dict(tails=rng.random() < 0.7)
    elif op == "ptn.group":
        a = dict(v=rng.choice([0, 50, 100, 1000]), h=rng.choice([None, None, 1, 2]), jack=rng.random() < 0.6)
    elif op == "ptn.combinations":
        a = dict(size=rng.choice([2, 2, 3]), size2=rng.random() < 0.4, chord=rng.random() < 0.3, combo=rng.random() < 0.3,
                 typ=rng.random() < 0.3)
    elif op in ("conv.OsuToBMS.convert", "conv.QuaToBMS.convert", "conv.O2JToBMS.convert"):
        a = dict(move=rng.choice([0, 1]))
    # `recent`: take the newest compatible object of the pool (a result of an earlier step: second-generation inputs —
    # full_ln of full_ln, convert of converted, rate of rated), else any compatible one
    return dict(op=op, src=rng.randrange(0, 64), other=rng.randrange(0, 64), recent=rng.random() < 0.45, args=a)


def gen(rng, tier, i):
    game = rng.choice(GAMES)
    keys = rng.choice([4, 4, 4, 7, 7, 7, 6, 8]) if game != "o2jam" else 7
    if game == "bms":
        keys = rng.choice([4, 7, 8])
    nmaps = rng.choice([1, 1, 2]) if game in ("osu", "sm", "o2jam") else 1
    small = rng.random() < 0.3
    large = tier == "thorough" and not small and rng.random() < 0.15
    case = dict(claim="history", game=game, keys=keys, maps=[gen_map(rng, game, keys, small, large) for _ in range(nmaps)],
                setmeta=gen_meta(rng, game, keys, False) if game in ("sm", "o2jam") else {})
    kinds = initial_kinds(game, nmaps)
    nsteps = rng.choice([1, 2, 3, 4, 5, 6, 8, 10])
    steps = []
    for _ in range(nsteps):
        ops = applicable_ops(game, kinds)
        # favour the non-list operations a little: there are many list ops
        heavy = [o for o in ops if not is_listop(o)]
        heavy += [o for o in heavy if o.startswith("ptn.g")] * 4 + [o for o in heavy if o.startswith("ptn.c")] * 12
        ops = ops + [o for o in ops if o == "list.append"] * 2       # four kinds of appended value
        op = rng.choice(heavy) if heavy and rng.random() < 0.55 else rng.choice(ops)
        steps.append(gen_step(rng, op, game))
        for kk in result_kinds(op, source_game_of(op, game, kinds)):
            if kk not in kinds:
                kinds.append(kk)
    case["steps"] = steps
    return case


def source_game_of(op, game, kinds):
    if op.startswith("conv."):
        n = op.split(".")[1].split("To")[0]
        return dict(Osu="osu", Qua="quaver", SM="sm", BMS="bms", O2J="o2jam")[n]
    if op.startswith("write."):
        return op.split(".")[1]
    return game


def initial_kinds(game, nmaps):
    if game in ("sm", "o2jam"):
        return [("mapset", game), ("map", game)]
    return [("map", game)]


def _h(game, keys, maps, steps, setmeta=None):
    return dict(claim="history", game=game, keys=keys, maps=maps, setmeta=setmeta or {}, steps=steps)


def _st(op, src=0, other=0, recent=False, **args):
    return dict(op=op, src=src, other=other, recent=recent, args=args)


def _lst(cols, labels="range"):
    return dict(cols=cols, labels=labels)


def bms_empty_holds():
    return dict(lists=dict(hits=dict(cols=dict(offset=[0, 0], column=[0, 0], sample=["01", "03"]), labels=[0, 1], build="empty"),
                           holds=_lst(dict(offset=[], column=[], length=[], sample=[])),
                           bpms=_lst(dict(offset=[0, 0], bpm=[120, 120], metronome=[4, 4]), [0, 1])),
                meta=dict(title="S", artist="a", version="v"))


def corpus():
    c = []
    osu1 = dict(lists=dict(hits=_lst(dict(offset=[0, 500, 500, 1000], column=[0, 1, 2, 3], hitsound_set=[2, 0, 4, 0],
                                          volume=[30, 0, 50, 0], hitsound_file=["", "hs.wav", "", ""]), [3, 1, 0, 2]),
                           holds=_lst(dict(offset=[250, 1500], column=[1, 2], length=[500, 125])),
                           bpms=_lst(dict(offset=[0, 1000], bpm=[120, 240])),
                           svs=_lst(dict(offset=[0, 750], multiplier=[1, 2])),
                           samples=_lst(dict(offset=[100], sample_file=["a.wav"], volume=[40]))),
                meta=dict(title="t", circle_size=4, tags=["x", "y"]))
    osu2 = dict(lists=dict(hits=_lst(dict(offset=[0, 500, 1000], column=[0, 1, 2])), holds=_lst(dict(offset=[], column=[], length=[])),
                           bpms=_lst(dict(offset=[0], bpm=[120])), svs=_lst(dict(offset=[], multiplier=[])),
                           samples=_lst(dict(offset=[], sample_file=[], volume=[]))),
                meta=dict(title="u", circle_size=4, tags=""))
    # D17: sv_normalize and its input tempo frame
    c.append(_h("osu", 4, [osu1], [_st("alg.sv_normalize", override=None), _st("alg.sv_normalize", override=200)]))
    # every analysis / generator on one chart
    c.append(_h("osu", 4, [osu1, osu2], [_st("alg.scroll_speed", override=None), _st("alg.dominant_bpm"), _st("alg.full_ln", gap=150, thres=100),
                                          _st("alg.hitsound_copy", src=0, other=1), _st("map.rate", by=2), _st("write.osu")]))
    c.append(_h("osu", 4, [osu1], [_st("conv.OsuToQua.convert"), _st("conv.OsuToSM.convert"), _st("conv.OsuToBMS.convert", move=0)]))
    # D38: the tags list
    c.append(_h("osu", 4, [osu1], [_st("conv.OsuToQua.convert")]))
    c.append(_h("osu", 4, [osu2], [_st("conv.OsuToQua.convert")]))
    # list operations, permuted labels
    c.append(_h("osu", 4, [osu1], [_st("list.after", src=0, offset=500, include_end=True, flag=False),
                                   _st("list.sorted", src=0, reverse=False), _st("list.append", src=0, other=0, sort=True),
                                   _st("list.move_start_to", src=1, to=100), _st("list.deepcopy", src=2), _st("list.wrap", src=0),
                                   _st("list.slice", src=0, a=0, b=2), _st("list.mask", src=0, bits=5, all=False)]))
    # a view of a view reaches the base frame through memory (minimised disagreement of an early version of this check)
    c.append(_h("osu", 4, [osu1], [_st("list.slice", src=0, a=0, b=3), _st("list.slice", src=5, a=0, b=2), _st("list.wrap", src=6),
                                   _st("list.deepcopy", src=7), _st("list.sorted", src=6, reverse=True)]))
    # append of something narrower than the receiver: another list class, a cut-down list, a hand-made DataFrame
    c.append(_h("osu", 4, [osu1], [_st("list.append", src=0, other=2, sort=False, mode="any", cols=0, rows=0),
                                   _st("list.append", src=0, other=0, sort=True, mode="narrow", cols=1, rows=2),
                                   _st("list.append", src=3, other=0, sort=False, mode="frame", cols=0, rows=1),
                                   _st("list.append", src=1, other=4, sort=False, mode="any", cols=0, rows=0)]))
    # storyboard samples live outside `objs`: rate / full_ln / deepcopy of an osu chart that has them
    c.append(_h("osu", 4, [osu1], [_st("map.rate", by=2), _st("alg.full_ln", gap=150, thres=100), _st("map.deepcopy"),
                                   _st("map.rate", src=1, by=0.5)]))
    c.append(_h("osu", 4, [osu1], [_st("ptn.from_note_lists", tails=True), _st("ptn.group", v=100, h=None, jack=True),
                                   _st("ptn.combinations", size=2, size2=False, chord=False, combo=False, typ=False)]))
    qua = dict(lists=dict(hits=_lst(dict(offset=[0, 250, 500], column=[0, 1, 2], keysounds=[[], ["k1"], []])),
                          holds=_lst(dict(offset=[100], column=[3], length=[400], keysounds=[["k2"]])),
                          bpms=_lst(dict(offset=[0, 2000], bpm=[150, 75])), svs=_lst(dict(offset=[0], multiplier=[0.5]))),
               meta=dict(title="q", mode="Keys4", tags=["p"]))
    c.append(_h("quaver", 4, [qua], [_st("alg.sv_normalize", override=None), _st("conv.QuaToOsu.convert"), _st("map.rate", by=0.5),
                                      _st("write.quaver"), _st("list.after", src=0, offset=100, include_end=False, flag=False),
                                      _st("map.deepcopy"), _st("conv.QuaToSM.convert"), _st("conv.QuaToBMS.convert", move=0)]))
    # second-generation inputs and lists built by the public constructors (from_dict fills the list-valued default)
    quad = dict(lists=dict(hits=dict(cols=dict(offset=[0, 250, 500, 900], column=[0, 1, 0, 1]), labels="range", build="from_dict"),
                           holds=dict(cols=dict(offset=[100, 700], column=[3, 2], length=[400, 50]), labels="range", build="from_dict"),
                           bpms=dict(cols=dict(offset=[0], bpm=[150]), labels="range", build="from_dict"),
                           svs=dict(cols=dict(offset=[0], multiplier=[0.5]), labels="range", build="empty")),
                meta=dict(title="q", mode="Keys4", tags=["p"]))
    c.append(_h("quaver", 4, [quad], [_st("alg.full_ln", gap=150, thres=100), _st("alg.full_ln", recent=True, gap=50, thres=25),
                                       _st("map.rate", recent=True, by=2), _st("map.rate", recent=True, by=0.5),
                                       _st("conv.QuaToOsu.convert", recent=True), _st("conv.OsuToQua.convert", recent=True),
                                       _st("alg.full_ln", recent=True, gap=150, thres=100), _st("list.after", src=0, offset=100, include_end=True, flag=False),
                                       _st("list.deepcopy", src=0)]))
    c.append(_h("quaver", 4, [qua], [_st("alg.full_ln", gap=150, thres=100), _st("alg.full_ln", recent=True, gap=150, thres=100)]))
    # several key sounds per note in arbitrary order (only the order inside a nested list could change), both writers' lists
    quak = dict(lists=dict(hits=_lst(dict(offset=[0, 250, 500, 1000], column=[0, 1, 2, 3],
                                          keysounds=[[], ["snare.wav", "kick.wav"], ["hat.wav"], ["b.ogg", "c.ogg", "a.ogg"]])),
                           holds=_lst(dict(offset=[1500, 2500], column=[0, 2], length=[400, 250],
                                           keysounds=[["z.wav", "y.wav"], [dict(Sample=3, Volume=50), dict(Sample=1, Volume=20)]])),
                           bpms=_lst(dict(offset=[0], bpm=[120])), svs=_lst(dict(offset=[], multiplier=[]))),
                meta=dict(title="k", mode="Keys4", tags=[]))
    c.append(_h("quaver", 4, [quak], [_st("write.quaver"), _st("map.rate", by=2), _st("write.quaver", recent=True), _st("map.deepcopy")]))
    # mutable state at depth >= 2 inside object cells: key sound RECORDS (what `QuaMap.read` hands over), records that
    # hold lists / records (what a client may build); every operation built on the list-level deep copy, on a built
    # chart and on one that came through the reader
    rec = lambda s_, v_: dict(Sample=s_, Volume=v_)
    for via in ("build", "read"):
        quar = dict(lists=dict(hits=_lst(dict(offset=[0, 500, 1000], column=[0, 1, 2],
                                              keysounds=[[rec(1, 80), rec(2, 40)], [], ["a.ogg"]])),
                               holds=_lst(dict(offset=[1000, 2500], column=[2, 0], length=[800, 100], keysounds=[[rec(2, 55)], []])),
                               bpms=_lst(dict(offset=[0], bpm=[120])), svs=_lst(dict(offset=[0], multiplier=[1]))),
                    meta=dict(title="r", mode="Keys4", tags=["p"]), via=via)
        c.append(_h("quaver", 4, [quar], [_st("list.deepcopy", src=0), _st("list.move_start_to", src=0, to=100, at="any"),
                                           _st("list.move_end_to", src=1, to=5000, at="any"), _st("map.deepcopy"),
                                           _st("map.rate", by=2), _st("alg.full_ln", gap=150, thres=100),
                                           _st("map.rate", recent=True, by=0.5), _st("write.quaver")]))
    quan = dict(lists=dict(hits=_lst(dict(offset=[0, 500], column=[0, 1],
                                          keysounds=[[dict(Sample=1, Volume=80, Layers=["a.ogg", "b.ogg"])],
                                                     [dict(Sample=2, Opt=dict(Pan=5, Fx=[1]))]])),
                           holds=_lst(dict(offset=[1000], column=[2], length=[800], keysounds=[[["z.wav", [3]]]])),
                           bpms=_lst(dict(offset=[0], bpm=[120])), svs=_lst(dict(offset=[], multiplier=[]))),
                meta=dict(title="n", mode="Keys4", tags=[]))
    c.append(_h("quaver", 4, [quan], [_st("list.deepcopy", src=0), _st("list.move_end_to", src=1, to=100, at="any"),
                                       _st("map.rate", by=2), _st("alg.full_ln", gap=50, thres=25), _st("map.deepcopy", recent=True)]))
    # minimised disagreement (thorough seed 0): a column getter called twice on an EMPTY list returns the Series the frame
    # has cached — reachable from the frame by reference only (no memory to share)
    c.append(_h("bms", 7, [bms_empty_holds()], [_st("hold.head_offset", src=0, recent=True), _st("hold.head_offset", src=0),
                                                 _st("list.column", src=1, i=0), _st("list.column", src=1, i=0)]))
    # move to where the list already is (first / last offset, tail included for holds), and an empty list
    c.append(_h("osu", 4, [osu1], [_st("list.move_start_to", src=0, to=0, at="first"), _st("list.move_end_to", src=0, to=0, at="last"),
                                   _st("list.move_end_to", src=1, to=0, at="last"), _st("list.move_start_to", src=1, to=0, at="same")]))
    c.append(_h("osu", 4, [osu2], [_st("list.move_start_to", src=1, to=100, at="any"), _st("list.move_end_to", src=1, to=100, at="last"),
                                   _st("list.move_end_to", src=3, to=100, at="first")]))
    sm = dict(lists=dict(hits=_lst(dict(offset=[0, 500, 1000], column=[0, 1, 2])), holds=_lst(dict(offset=[250], column=[3], length=[250])),
                         bpms=_lst(dict(offset=[0, 2000], bpm=[120, 240])), fakes=_lst(dict(offset=[], column=[])),
                         lifts=_lst(dict(offset=[], column=[])), keysounds=_lst(dict(offset=[], column=[])),
                         mines=_lst(dict(offset=[750], column=[0])), rolls=_lst(dict(offset=[1500], column=[1], length=[125])),
                         stops=_lst(dict(offset=[], length=[]))),
              meta=dict(chart_type="dance-single", difficulty="Hard", difficulty_val=5))
    c.append(_h("sm", 4, [sm, sm], [_st("mapset.rate", by=2), _st("write.sm"), _st("conv.SMToOsu.convert"), _st("conv.SMToQua.convert"),
                                    _st("conv.SMToBMS.convert"), _st("mapset.deepcopy"), _st("alg.full_ln", gap=150, thres=100),
                                    _st("alg.dominant_bpm")],
                setmeta=dict(title="s", artist="a", offset=0.0, music="a.mp3")))
    bms = dict(lists=dict(hits=_lst(dict(offset=[0, 500, 1000], column=[0, 1, 2], sample=["01", "02", "03"])),
                          holds=_lst(dict(offset=[250], column=[3], length=[250], sample=["04"])),
                          bpms=_lst(dict(offset=[0], bpm=[120]))), meta=dict(title="b", artist="a", version="v"))
    c.append(_h("bms", 7, [bms], [_st("write.bms"), _st("conv.BMSToOsu.convert"), _st("conv.BMSToQua.convert"), _st("conv.BMSToSM.convert"),
                                  _st("map.rate", by=1.25), _st("alg.scroll_speed", override=None)]))
    o2j = dict(lists=dict(hits=_lst(dict(offset=[0, 500, 1000], column=[0, 1, 2])), holds=_lst(dict(offset=[250], column=[3], length=[250])),
                          bpms=_lst(dict(offset=[0], bpm=[120]))), meta={})
    c.append(_h("o2jam", 7, [o2j, o2j], [_st("conv.O2JToOsu.convert"), _st("conv.O2JToQua.convert"), _st("conv.O2JToSM.convert"),
                                         _st("conv.O2JToSM.convert_merge"), _st("conv.O2JToBMS.convert", move=1), _st("mapset.rate", by=2)],
                setmeta=dict(title="o", artist="a", creator="c", level=[3, 9, 0, 0])))
    return c


def valid(case):
    try:
        if case.get("claim") != "history" or case["game"] not in GAMES:
            return False
        if not case["maps"] or not isinstance(case["steps"], list):
            return False
        if case["game"] not in ("osu", "sm", "o2jam") and len(case["maps"]) != 1:
            return False
        for m in case["maps"]:
            if set(m["lists"]) != set(SLOTS[case["game"]]):
                return False
            if m.get("via", "build") not in ("build", "read"):
                return False
            for slot, l in m["lists"].items():
                n = len(l["cols"]["offset"])
                if any(len(v) != n for v in l["cols"].values()):
                    return False
                if l["labels"] != "range" and (len(l["labels"]) != n or len(set(l["labels"])) != n):
                    return False
                if slot == "bpms" and n == 0:
                    return False
                if l.get("build", "frame") not in ("frame", "from_dict", "empty"):
                    return False
                if "bpm" in l["cols"] and any((not isinstance(b, (int, float))) or b <= 0 for b in l["cols"]["bpm"]):
                    return False
                if "column" in l["cols"] and any((not isinstance(b, int)) or b < 0 or b >= case["keys"] for b in l["cols"]["column"]):
                    return False
                for k, v in l["cols"].items():
                    if k in ("offset", "length", "multiplier", "metronome") and any(isinstance(x, bool) or not isinstance(x, (int, float)) for x in v):
                        return False
        for s in case["steps"]:
            if not isinstance(s.get("op"), str) or not isinstance(s.get("src"), int) or not isinstance(s.get("other"), int):
                return False
            if s["src"] < 0 or s["other"] < 0:
                return False
            if s["op"] in ("map.rate", "mapset.rate") and not (s["args"].get("by") and s["args"]["by"] > 0):
                return False
            if s["op"] == "list.append" and s["args"].get("mode", "same") in ("narrow", "frame"):
                if not all(isinstance(s["args"].get(k), int) and s["args"][k] >= 0 for k in ("cols", "rows")):
                    return False
        return True
    except Exception:
        return False


# ============================================================================================ building objects

def build_list(cls, spec):
    import numpy as np
    import pandas as pd
    proto = cls([]).df
    n = len(spec["cols"]["offset"])
    defaults = {k: v[1] for k, v in cls._item_class()._props.items()}
    data = {}
    for c in proto.columns:
        dt = proto[c].dtype
        if c in spec["cols"]:
            vals = spec["cols"][c]
            if c == "sample" and dt == object or (c == "sample" and vals and isinstance(vals[0], str)):
                vals = [v.encode("ascii") for v in vals]
            if c == "keysounds":
                vals = [_fresh(v) for v in vals]
        else:
            d = defaults.get(c)
            vals = [list(d) if isinstance(d, list) else d for _ in range(n)]
        if dt == object or (vals and isinstance(vals[0], (bytes, list, str))):
            s = pd.Series([None] * n, dtype=object)
            for i, v in enumerate(vals):
                s.iat[i] = v
            data[c] = s
        else:
            data[c] = pd.Series(np.asarray(vals, dtype=dt) if n else np.asarray([], dtype=dt))
    how = spec.get("build", "frame")
    if how == "from_dict" and n > 0:
        # the public constructor: only the columns the case names are given, the class fills in the rest
        given = {c: data[c].tolist() for c in proto.columns if c in spec["cols"]}
        tl = cls.from_dict(given)
    elif how == "empty":
        # the way the converters build lists: `empty(n)` then column assignment
        tl = cls.empty(n)
        for c in proto.columns:
            if c in spec["cols"]:
                setattr(tl, c, data[c].to_numpy() if data[c].dtype != object else data[c].tolist())
    else:
        tl = cls(pd.DataFrame(data, columns=list(proto.columns)))
    if spec["labels"] != "range":
        tl.df.index = pd.Index(list(spec["labels"]), dtype="int64")
    return tl


def _fresh(v):
    """the case's JSON value as objects of its own (no object of the case is handed to the code)"""
    if isinstance(v, list):
        return [_fresh(x) for x in v]
    if isinstance(v, dict):
        return {k: _fresh(x) for k, x in v.items()}
    return v


def build_map(game, spec):
    k = K(game)
    m = k["map"]()
    for slot, cls in k["lists"].items():
        setattr(m, slot, build_list(cls, spec["lists"][slot]))
    for slot, cls in k["extra"].items():
        setattr(m, slot, build_list(cls, spec["lists"][slot]))
    for key, v in spec["meta"].items():
        if game == "bms" and isinstance(v, str):
            v = v.encode("ascii")
        if isinstance(v, list):
            v = list(v)
        setattr(m, key, v)
    if game == "quaver" and spec.get("via") == "read":
        try:
            m = k["map"].read(m.write().split("\n"))
        except Exception:
            pass                  # not every generated chart has a text the reader takes; the built chart is used then
    return m


def build_pool(case):
    game = case["game"]
    maps = [build_map(game, ms) for ms in case["maps"]]
    pool = []
    if game in ("sm", "o2jam"):
        k = K(game)
        if game == "sm":
            s = k["set"](maps=maps)
        else:
            s = k["set"](maps=maps)
        for key, v in case.get("setmeta", {}).items():
            setattr(s, key, v)
        pool.append(dict(kind="mapset", game=game, obj=s))
    for m in maps:
        pool.append(dict(kind="map", game=game, obj=m))
    pool.append(dict(kind="globals", game=game, obj=class_defaults()))
    return pool


def class_defaults():
    """mutable state that exists before any call and that every later call can reach: the list/dict-valued defaults in
    the item classes' `_props` (e.g. Quaver `keysounds=["object", []]`), by class and property.  They are cells of the
    heap from the start, so a result whose rows hold such an object shares with the heap before the call."""
    out = {}
    for g in GAMES:
        k = K(g)
        for cls in list(k["lists"].values()) + list(k["extra"].values()):
            item = cls._item_class()
            for name, spec in getattr(item, "_props", {}).items():
                if isinstance(spec, (list, tuple)) and len(spec) > 1 and isinstance(spec[1], (list, dict, set)):
                    out[f"{item.__name__}.{name}"] = spec[1]
    return out


# ============================================================================================ walking, snapshots

def _is_reamber_obj(o):
    t = type(o)
    return (getattr(t, "__module__", "") or "").startswith("reamber") and hasattr(o, "__dict__") and not isinstance(o, type)


def _tag(v):
    """type-tagged exact rendering of one scalar cell / field value"""
    import numpy as np
    if v is None:
        return "N"
    if isinstance(v, (bool, np.bool_)):
        return "B1" if v else "B0"
    if isinstance(v, (int, np.integer)):
        return f"i{type(v).__name__}:{int(v)}"
    if isinstance(v, (float, np.floating)):
        f = float(v)
        return f"f{type(v).__name__}:" + ("nan" if f != f else f.hex())
    if isinstance(v, str):
        return "s:" + v
    if isinstance(v, (bytes, np.bytes_)):
        return "b:" + bytes(v).hex()
    if isinstance(v, type):
        return "T:" + v.__module__ + "." + v.__qualname__
    if isinstance(v, (list, tuple)):
        return ("l[" if isinstance(v, list) else "t[") + ",".join(_tag(x) for x in v) + "]"
    if isinstance(v, dict):
        return "d{" + ",".join(_tag(k) + "=" + _tag(x) for k, x in v.items()) + "}"
    return f"?{type(v).__module__}.{type(v).__qualname__}:{v!r}"


class Heap:
    """addresses for mutable objects, by identity; objects are kept alive so ids stay unique"""

    def __init__(self):
        self.objs = []
        self.by_id = {}

    def ref(self, o):
        r = self.by_id.get(id(o))
        if r is None:
            r = len(self.objs)
            self.objs.append(o)
            self.by_id[id(o)] = r
        return r

    def known(self, o):
        return id(o) in self.by_id


def is_leaf(o):
    import numpy as np
    import pandas as pd
    return isinstance(o, (pd.DataFrame, pd.Series, np.ndarray))


def is_cell(o):
    return is_leaf(o) or isinstance(o, (list, dict, set)) or _is_reamber_obj(o)


def children(o):
    """(name, child) pairs of a container cell"""
    if isinstance(o, list):
        return [(str(i), v) for i, v in enumerate(o)]
    if isinstance(o, dict):
        return [(_tag(k), v) for k, v in o.items()]
    if isinstance(o, set):
        return [(str(i), v) for i, v in enumerate(sorted(o, key=repr))]
    if _is_reamber_obj(o):
        return sorted(vars(o).items())
    return []


def walk(root, heap, out=None, path="", seen=None):
    """ordered [(path, ref)] of every mutable cell reachable from root (tuples are walked through)"""
    if out is None:
        out, seen = [], set()
    if isinstance(root, tuple):
        for i, v in enumerate(root):
            walk(v, heap, out, f"{path}.{i}" if path else str(i), seen)
        return out
    if not is_cell(root):
        return out
    if id(root) in seen:
        return out
    seen.add(id(root))
    out.append((path, heap.ref(root)))
    if not is_leaf(root):
        for name, ch in children(root):
            walk(ch, heap, out, f"{path}.{name}" if path else name, seen)
    return out


def content(o, heap):
    """deep snapshot of ONE cell as the model's Frame: kind, cols [(name, dtype)], labels, rows (type-tagged strings)"""
    import numpy as np
    import pandas as pd
    if isinstance(o, pd.DataFrame):
        idx = o.index
        kind = f"DataFrame|{type(idx).__name__}|{idx.dtype}|{idx.name!r}|{type(o.columns).__name__}"
        cols = [[_tag(c), str(o.dtypes.iloc[j])] for j, c in enumerate(o.columns)]
        colvals = [o.iloc[:, j].tolist() for j in range(o.shape[1])]
        rows = [[_tag(colvals[j][i]) for j in range(len(colvals))] for i in range(len(o))]
        return dict(kind=kind, cols=cols, labels=[_tag(x) for x in idx.tolist()], rows=rows)
    if isinstance(o, pd.Series):
        idx = o.index
        kind = f"Series|{type(idx).__name__}|{idx.dtype}|{idx.name!r}"
        return dict(kind=kind, cols=[[_tag(o.name), str(o.dtype)]], labels=[_tag(x) for x in idx.tolist()],
                    rows=[[_tag(v)] for v in o.tolist()])
    if isinstance(o, np.ndarray):
        kind = f"ndarray|{type(o).__name__}|{o.shape}"
        if o.dtype.names:
            cols = [[n, str(o.dtype[n])] for n in o.dtype.names]
            flat = o.reshape(-1)
            rows = [[_tag(rec[n]) for n in o.dtype.names] for rec in flat]
        else:
            cols = [["", str(o.dtype)]]
            rows = [[_tag(v)] for v in o.reshape(-1).tolist()]
        return dict(kind=kind, cols=cols, labels=[], rows=rows)
    # containers / objects: one row of fields; child cells are rendered by address
    kind = "list" if isinstance(o, list) else "dict" if isinstance(o, dict) else "set" if isinstance(o, set) \
        else f"object|{type(o).__module__}.{type(o).__qualname__}"
    cols, row = [], []
    for name, ch in children(o):
        cols.append([name, type(ch).__name__])
        row.append(_render_child(ch, heap))
    return dict(kind=kind, cols=cols, labels=[], rows=[row])


def _arr_bytes(v):
    import numpy as np
    if not isinstance(v, np.ndarray):
        v = np.asarray(v)
    if v.dtype.names:
        return b"\x01".join(_arr_bytes(v[n]) for n in v.dtype.names)
    if v.dtype.kind in "biuf":
        return str((v.dtype, v.shape)).encode() + v.tobytes()
    return str((v.dtype, v.shape)).encode() + "\x00".join(_tag(x) for x in v.reshape(-1).tolist()).encode("utf8", "surrogatepass")


def _idx_bytes(idx):
    import pandas as pd
    head = f"{type(idx).__name__}|{idx.dtype}|{idx.name!r}|".encode()
    if isinstance(idx, pd.RangeIndex):
        return head + repr((idx.start, idx.stop, idx.step)).encode()
    return head + _arr_bytes(idx._values)


def digest(o, heap):
    """cheap injective (up to hash collision) key of a cell's snapshot: equal keys => equal `content`.
    Only used to avoid re-rendering unchanged cells; the frames the driver compares are full `content`s."""
    import numpy as np
    import pandas as pd
    h = hashlib.blake2b(digest_size=16)
    if isinstance(o, pd.DataFrame):
        h.update(b"DF|" + type(o.columns).__name__.encode() + repr(list(o.columns)).encode() + b"|" + _idx_bytes(o.index))
        for blk in o._mgr.blocks:
            h.update(repr(blk.mgr_locs.as_array.tolist()).encode())
            h.update(_arr_bytes(blk.values))
    elif isinstance(o, pd.Series):
        h.update(b"SR|" + _tag(o.name).encode() + _idx_bytes(o.index) + _arr_bytes(o._values))
    elif isinstance(o, np.ndarray):
        h.update(b"ND|" + type(o).__name__.encode() + repr(o.dtype).encode() + _arr_bytes(o))
    else:
        h.update(json.dumps(content(o, heap), sort_keys=True).encode("utf8", "surrogatepass"))
    return h.digest()


def _render_child(ch, heap):
    if isinstance(ch, tuple):
        return "t[" + ",".join(_render_child(x, heap) for x in ch) + "]"
    if is_cell(ch):
        return f"@{heap.ref(ch)}"
    return _tag(ch)


def buffers(o):
    """numpy buffers holding the mutable values of a leaf cell (row-label Index buffers excluded)"""
    import numpy as np
    import pandas as pd
    if isinstance(o, pd.DataFrame):
        out = []
        for blk in o._mgr.blocks:
            v = blk.values
            out.append(v if isinstance(v, np.ndarray) else np.asarray(v))
        return out
    if isinstance(o, pd.Series):
        v = o._values
        return [v if isinstance(v, np.ndarray) else np.asarray(v)]
    if isinstance(o, np.ndarray):
        return [o]
    return []


def aliased(a, b):
    import numpy as np
    for x in buffers(a):
        if x.size == 0:
            continue
        for y in buffers(b):
            if y.size == 0:
                continue
            if np.may_share_memory(x, y) and np.shares_memory(x, y):
                return True
    return False


# ============================================================================================ in-place mutation probe

MARK = "~c14~"


def _changed(x):
    """a value of the same kind as x that differs from it (what a client's edit of a record looks like)"""
    if isinstance(x, bool):
        return not x
    if isinstance(x, (int, float)):
        return x + 1
    if isinstance(x, str):
        return x + "~"
    if isinstance(x, bytes):
        return x + b"~"
    return MARK


def _is_mut(x):
    return isinstance(x, (list, dict, set))


def has_nested(v):
    """a cell object that holds further mutable objects (depth >= 2: records of a key sound list, lists in records)"""
    if isinstance(v, list):
        return any(_is_mut(x) for x in v)
    if isinstance(v, dict):
        return any(_is_mut(x) for x in v.values())
    return False


def edit_inside(v, undo, seen, top=True):
    """the client edits a cell object IN PLACE at every depth: every element / value that is itself mutable is edited
    recursively (a record of a key sound list: every field gets another value, a field is added; a list inside a
    record: elements replaced, one appended), scalar elements are replaced by different ones.  The top-level
    object's own membership is left to the caller (`top`)."""
    if id(v) in seen:
        return
    seen.add(id(v))
    if isinstance(v, list):
        for i, x in enumerate(list(v)):
            if _is_mut(x):
                edit_inside(x, undo, seen, False)
            else:
                undo.append(("set", v, i, x))
                v[i] = _changed(x)
        if not top:
            v.append(MARK)
            undo.append(("list", v, None))
    elif isinstance(v, dict):
        for k, x in list(v.items()):
            if _is_mut(x):
                edit_inside(x, undo, seen, False)
            else:
                undo.append(("set", v, k, x))
                v[k] = _changed(x)
        if not top:
            v[MARK] = 1
            undo.append(("dict", v, None))
    elif isinstance(v, set):
        if not top:
            v.add(MARK)
            undo.append(("setadd", v, None))


def mutate_result(cells, heap, deep):
    """in-place change of every buffer / container of the given cells; returns an undo list.
    deep = False: numeric buffers bumped, object cells REPLACED, containers get a member;
    deep = True: the cell objects themselves (lists inside object columns) get a member;
    deep = "nested": everything INSIDE the cell objects and inside the containers is edited at every depth."""
    import numpy as np
    import pandas as pd
    undo = []
    seen = set()
    for r in cells:
        o = heap.objs[r]
        if is_leaf(o):
            for buf in buffers(o):
                if buf.size == 0:
                    continue
                if deep == "nested":
                    if buf.dtype == object:
                        for v in buf.reshape(-1).tolist():
                            if _is_mut(v):
                                edit_inside(v, undo, seen, True)
                    continue
                if not buf.flags.writeable:
                    continue
                saved = buf.copy()
                if buf.dtype.names:
                    for n in buf.dtype.names:
                        _bump(buf[n], deep, undo)
                else:
                    _bump(buf, deep, undo)
                undo.append(("buf", buf, saved))
        elif deep == "nested":
            if isinstance(o, (list, dict)):
                # members that are cells themselves are edited as cells of the result; scalars are replaced here
                for k, x in (list(enumerate(o)) if isinstance(o, list) else list(o.items())):
                    if not is_cell(x) and not isinstance(x, tuple):
                        undo.append(("set", o, k, x))
                        o[k] = _changed(x)
        elif isinstance(o, list):
            o.append(MARK)
            undo.append(("list", o, None))
        elif isinstance(o, dict):
            o[MARK] = 1
            undo.append(("dict", o, None))
    return undo


def _bump(buf, deep, undo):
    import numpy as np
    if buf.dtype == bool:
        np.logical_not(buf, out=buf)
    elif buf.dtype.kind in "iuf":
        buf += 1
    elif buf.dtype == object:
        it = np.nditer(buf, flags=["refs_ok", "multi_index"])
        for _ in it:
            ix = it.multi_index
            v = buf[ix]
            if isinstance(v, list) and deep:
                v.append(MARK)                 # the cell object itself (deep copies must not share it)
                undo.append(("list", v, None))
            elif isinstance(v, dict) and deep:
                v[MARK] = 1
                undo.append(("dict", v, None))
            elif isinstance(v, list):
                buf[ix] = list(v) + [MARK]
            elif isinstance(v, str):
                buf[ix] = v + "~"
            elif isinstance(v, bytes):
                buf[ix] = v + b"~"
            elif isinstance(v, type):
                buf[ix] = int
            else:
                buf[ix] = MARK
    elif buf.dtype.kind in "SU":
        buf[...] = "~"


def undo_mutation(undo):
    for ent in reversed(undo):
        kind, o = ent[0], ent[1]
        if kind == "buf":
            o[...] = ent[2]
        elif kind == "list":
            if o and o[-1] == MARK:
                o.pop()
        elif kind == "dict":
            o.pop(MARK, None)
        elif kind == "setadd":
            o.discard(MARK)
        elif kind == "set":
            o[ent[2]] = ent[3]


# ============================================================================================ operations

def list_operands(pool):
    """every TimedList in the pool: list entries, and the lists of map entries"""
    out = []
    for e in pool:
        if e["kind"] == "list":
            out.append((e["game"], e["obj"]))
        elif e["kind"] == "map":
            m = e["obj"]
            for slot in SLOTS[e["game"]]:
                out.append((e["game"], getattr(m, slot)))
    return out


def pick(xs, i, recent=False):
    if not xs:
        return None
    return xs[-1] if recent else xs[i % len(xs)]


class Skip(Exception):
    pass


def prepare_call(step, pool):
    """-> (args: list of argument objects (snapshot targets), thunk, result_entries(result) -> pool entries)"""
    import numpy as np
    op, a = step["op"], step["args"]
    maps = lambda g=None: [e for e in pool if e["kind"] == "map" and (g is None or e["game"] == g)]
    sets = lambda g=None: [e for e in pool if e["kind"] == "mapset" and (g is None or e["game"] == g)]

    if is_listop(op):
        ls = list_operands(pool)
        if op.startswith("hold."):
            ls = [(g, x) for g, x in ls if hasattr(type(x), "tail_offset")]
        if op.startswith("bpm."):
            ls = [(g, x) for g, x in ls if hasattr(type(x), "snap_offsets")]
        if not ls:
            raise Skip()
        game, tl = pick(ls, step["src"], step.get("recent", False))
        val = lambda r: [dict(kind="value", game=game, obj=r)]
        if op == "list.getitem_int":
            if len(tl) == 0:
                raise Skip()
            return [tl], (lambda: tl[a["i"] % len(tl)]), val
        if op == "list.iter":
            return [tl], (lambda: list(iter(tl))), val
        if op == "list.from_dict":
            keep = ["offset"] + [c for i, c in enumerate(tl.df.columns) if c != "offset" and (a["cols"] >> (i % 12)) & 1]
            sub = tl.df[keep].iloc[: a["rows"]]
            d = sub.to_dict("records") if a["rows_form"] else sub.to_dict("list")
            cls = type(tl)
            return [d], (lambda: cls.from_dict(d)), lambda r: [dict(kind="list", game=game, obj=r)]
        if op == "list.empty":
            cls = type(tl)
            return [], (lambda: cls.empty(a["rows"])), lambda r: [dict(kind="list", game=game, obj=r)]
        if op == "list.df":
            return [tl], (lambda: tl.df), val
        if op == "list.column":
            col = list(tl.df.columns)[a["i"] % len(tl.df.columns)]
            return [tl], (lambda: getattr(tl, col)), val
        if op == "list.iloc":
            if a["fancy"]:
                ix = [i for i in range(a["a"], a["b"]) if i < len(tl)]
                return [tl], (lambda: tl.iloc[ix]), val
            return [tl], (lambda: tl.iloc[a["a"]:a["b"]]), val
        if op == "list.loc":
            labels = list(tl.df.index[a["a"]:a["b"]])
            if a["fancy"] or not labels:
                return [tl], (lambda: tl.loc[labels]), val
            return [tl], (lambda: tl.loc[labels[0]:labels[-1]]), val
        if op == "list.to_numpy":
            return [tl], (lambda: tl.to_numpy()), val
        if op == "list.describe":
            return [tl], (lambda: tl.describe()), val
        if op in ("list.first_offset", "list.last_offset", "list.first_last_offset"):
            name = op.split(".")[1]
            return [tl], (lambda: getattr(tl, name)()), val
        if op == "list.time_diff":
            return [tl], (lambda: tl.time_diff(a["last"])), val
        if op == "list.len":
            return [tl], (lambda: len(tl)), val
        if op == "list.repr":
            return [tl], (lambda: repr(tl)), val
        if op == "list.cmp":
            import operator
            other = tl if a["self_"] else pick([x for g, x in ls if type(x) is type(tl)], step["other"])
            f = getattr(operator, a["rel"])
            return [tl, other], (lambda: f(tl, other)), val
        if op in ("hold.head_offset", "hold.tail_offset"):
            name = op.split(".")[1]
            return [tl], (lambda: getattr(tl, name)), val
        if op == "bpm.current_bpm":
            return [tl], (lambda: tl.current_bpm(a["offset"], sort=a["sort"])), val
        if op == "bpm.snap_offsets":
            return [tl], (lambda: tl.snap_offsets(nths=a["nths"], last_offset=a["last"])), val
        if op == "bpm.to_timing_map":
            # the result holds the process-wide default Snapper: it is handed over as the second (implicit) argument
            from reamber.algorithms.timing.TimingMap import TimingMap
            return [tl, getattr(TimingMap, "snapper", None)], (lambda: tl.to_timing_map()), val
        if op == "bpm.ave_bpm":
            return [tl], (lambda: tl.ave_bpm(a["last"])), val
        if op == "list.cast":
            from reamber.algorithms.convert.ConvertBase import ConvertBase
            # the converters' helper: source list, target class, the caller's renaming dict (names or literal columns)
            slot = next((sl for sl, c in K(game)["lists"].items() if c is type(tl)), None)
            tgt = K(a["target"])["lists"].get(slot)
            if tgt is None:
                raise Skip()
            common = [c for c in tl.df.columns if c in tgt([]).df.columns]
            mapping = {c: c for c in common}
            if a["literal"] and len(common) > 1:
                mapping[common[-1]] = tl.df[common[-1]].to_numpy()
            return [tl, mapping], (lambda: ConvertBase.cast(tl, tgt, mapping)), lambda r: [dict(kind="list", game=a["target"], obj=r)]
        hold = hasattr(tl, "tail_offset")
        lst = lambda r: [dict(kind="list", game=game, obj=r)]
        if op == "list.after":
            if hold:
                return [tl], (lambda: tl.after(a["offset"], include_end=a["include_end"], include_tail=a["flag"])), lst
            return [tl], (lambda: tl.after(a["offset"], include_end=a["include_end"])), lst
        if op == "list.before":
            if hold:
                return [tl], (lambda: tl.before(a["offset"], include_end=a["include_end"], include_head=a["flag"])), lst
            return [tl], (lambda: tl.before(a["offset"], include_end=a["include_end"])), lst
        if op == "list.between":
            if hold:
                return [tl], (lambda: tl.between(a["lo"], a["hi"], include_ends=tuple(a["ends"]), include_head=a["head"],
                                                 include_tail=a["tail"])), lst
            return [tl], (lambda: tl.between(a["lo"], a["hi"], include_ends=tuple(a["ends"]))), lst
        if op == "list.mask":
            n = len(tl)
            mask = np.array([True] * n if a["all"] else [(a["bits"] >> (i % 16)) & 1 == 1 for i in range(n)], dtype=bool)
            return [tl], (lambda: tl[mask]), lst
        if op == "list.sorted":
            return [tl], (lambda: tl.sorted(reverse=a["reverse"])), lst
        if op == "list.append":
            import pandas as pd
            mode = a.get("mode", "same")
            if mode == "same":
                other = pick([x for g, x in ls if type(x) is type(tl)], step["other"])
            elif mode == "any":
                other = pick([x for g, x in ls], step["other"])
            else:
                donor = pick([x for g, x in ls if type(x) is type(tl)], step["other"])
                keep = ["offset"] + [c for i, c in enumerate(donor.df.columns) if c != "offset" and (a["cols"] >> (i % 12)) & 1]
                sub = donor.df[keep].iloc[: a["rows"]].copy()
                other = type(tl)(sub) if mode == "narrow" else sub
            return [tl, other], (lambda: tl.append(other, sort=a["sort"])), lst
        if op == "list.append_item":
            if len(tl) == 0:
                raise Skip()
            item = tl[0]
            item.offset = float(a["offset"])
            return [tl], (lambda: tl.append(item, sort=a["sort"])), lst
        if op in ("list.move_start_to", "list.move_end_to"):
            # empty lists are handed over too (the code raises for them today: `to - None`)
            to = a["to"]
            at = a.get("at", "any")
            if at == "same":
                at = "first" if op == "list.move_start_to" else "last"
            try:
                b = tl.first_offset() if at == "first" else tl.last_offset() if at == "last" else None
                if b is not None:
                    to = float(b)
            except Exception:
                pass
            if op == "list.move_start_to":
                return [tl], (lambda: tl.move_start_to(to)), lst
            return [tl], (lambda: tl.move_end_to(to)), lst
        if op == "list.deepcopy":
            return [tl], (lambda: tl.deepcopy()), lst
        if op == "list.wrap":
            return [tl], (lambda: type(tl)(tl)), lst
        if op == "list.slice":
            return [tl], (lambda: tl[a["a"]:a["b"]]), lst
        raise Skip()

    def map_of(games=None):
        ms = [e for e in maps() if games is None or e["game"] in games]
        if not ms:
            raise Skip()
        return pick(ms, step["src"], step.get("recent", False))

    if op == "map.deepcopy":
        e = map_of()
        return [e["obj"]], (lambda: e["obj"].deepcopy()), lambda r: [dict(kind="map", game=e["game"], obj=r)]
    if op == "map.rate":
        e = map_of()
        return [e["obj"]], (lambda: e["obj"].rate(a["by"])), lambda r: [dict(kind="map", game=e["game"], obj=r)]
    if op in ("mapset.deepcopy", "mapset.rate"):
        ss = sets()
        if not ss:
            raise Skip()
        e = pick(ss, step["src"], step.get("recent", False))
        f = (lambda: e["obj"].deepcopy()) if op == "mapset.deepcopy" else (lambda: e["obj"].rate(a["by"]))
        return [e["obj"]], f, lambda r: set_entries(e["game"], r)
    if op in MAP_OPS:
        e = map_of()
        m = e["obj"]
        val = lambda r: [dict(kind="value", game=e["game"], obj=r)]
        if op == "map.getitem":
            from reamber.base.lists.TimedList import TimedList
            from reamber.base.lists.notes.NoteList import NoteList
            w = a["what"]
            if w == "notes":
                return [m], (lambda: m.notes), val
            if w.startswith("p_"):
                return [m], (lambda: getattr(m, w[2:])), val
            cls = NoteList if w == "NoteList" else TimedList if w == "TimedList" else K(e["game"])["lists"][w]
            return [m], (lambda: m[cls]), val
        if op == "map.repr":
            return [m], (lambda: repr(m)), val
        if op in ("map.metadata", "map.describe", "map.metadata_in_set", "map.describe_in_set"):
            import contextlib
            import inspect
            import io
            meth = getattr(m, op.split(".")[1].replace("_in_set", ""))
            params = inspect.signature(meth).parameters
            kw = {k_: a[k_] for k_ in ("unicode", "rounding") if k_ in a and k_ in params}
            objs = [m]
            if op.endswith("_in_set"):
                owner = next((x["obj"] for x in sets(e["game"]) if any(y is m for y in x["obj"].maps)), None)
                name = next((k_ for k_ in ("s", "ms") if k_ in params), None)
                if owner is None or name is None:
                    raise Skip()
                kw[name] = owner
                objs.append(owner)
            def f():
                with contextlib.redirect_stdout(io.StringIO()):
                    return meth(**kw)
            return objs, f, val
        if op == "map.stack":
            return [m], (lambda: m.stack()), val
    if op in SET_OPS:
        ss = sets()
        if not ss:
            raise Skip()
        e = pick(ss, step["src"], step.get("recent", False))
        st = e["obj"]
        val = lambda r: [dict(kind="value", game=e["game"], obj=r)]
        if op == "mapset.iter":
            return [st], (lambda: list(iter(st))), val
        if op == "mapset.items":
            return [st], (lambda: list(st.items())), val
        if op == "mapset.getitem":
            from reamber.base.lists.notes.NoteList import NoteList
            w = a["what"]
            if w == "int":
                if not st.maps:
                    raise Skip()
                key = a["i"] % len(st.maps)
            else:
                key = NoteList if w == "NoteList" else K(e["game"])["lists"][w]
            return [st], (lambda: st[key]), val
        if op == "mapset.describe":
            import contextlib
            import io
            def f():
                with contextlib.redirect_stdout(io.StringIO()):
                    return st.describe(rounding=a["rounding"], unicode=a["unicode"])
            return [st], f, val
        if op == "mapset.stack":
            return [st], (lambda: st.stack()), val
        if op == "mapset.repr":
            return [st], (lambda: repr(st)), val
    if op.startswith("write_file."):
        import tempfile
        g = op.split(".")[1]
        if WRITERS[g] == "mapset":
            ss = sets(g)
            if not ss:
                raise Skip()
            e = pick(ss, step["src"], step.get("recent", False))
        else:
            e = map_of((g,))
        def f():
            with tempfile.TemporaryDirectory(prefix="c14-") as d:
                path = os.path.join(d, "chart." + dict(osu="osu", quaver="qua", sm="sm", bms="bms")[g])
                r = e["obj"].write_file(path)
                with open(path, "rb") as fh:
                    return (r, len(fh.read()))
        return [e["obj"]], f, lambda r: [dict(kind="value", game=g, obj=r)]
    if op in ("ptn.len", "ptn.v_mask", "ptn.h_mask"):
        from reamber.algorithms.pattern.Pattern import Pattern
        ps = [e for e in pool if e["kind"] == "pattern"]
        if not ps:
            raise Skip()
        e = pick(ps, step["src"], step.get("recent", False))
        ptn = e["obj"]
        val = lambda r: [dict(kind="value", game=e["game"], obj=r)]
        if op == "ptn.len":
            return [ptn], (lambda: len(ptn)), val
        ar = ptn.df.to_records(index=False)          # the caller's own record array, as `group` builds it
        if op == "ptn.v_mask":
            return [ar], (lambda: Pattern.v_mask(ar, a["offset"], a["v"], a["jack"])), val
        return [ar], (lambda: Pattern.h_mask(ar, a["column"], a["h"])), val
    if op == "alg.full_ln":
        from reamber.algorithms.generate.full_ln import full_ln
        e = map_of()
        return [e["obj"]], (lambda: full_ln(e["obj"], gap=a["gap"], ln_as_hit_thres=a["thres"])), \
            lambda r: [dict(kind="map", game=e["game"], obj=r)]
    if op == "alg.hitsound_copy":
        from reamber.algorithms.osu.hitsound_copy import hitsound_copy
        ms = maps("osu")
        if not ms:
            raise Skip()
        s, t = pick(ms, step["src"], step.get("recent", False)), pick(ms, step["other"])
        return [s["obj"], t["obj"]], (lambda: hitsound_copy(s["obj"], t["obj"])), lambda r: [dict(kind="map", game="osu", obj=r)]
    if op == "alg.sv_normalize":
        from reamber.algorithms.generate.sv_normalize import sv_normalize
        e = map_of(("osu", "quaver"))
        return [e["obj"]], (lambda: sv_normalize(e["obj"], override_bpm=a["override"])), \
            lambda r: [dict(kind="list", game=e["game"], obj=r)]
    if op == "alg.scroll_speed":
        from reamber.algorithms.analysis.scroll_speed import scroll_speed
        e = map_of()
        return [e["obj"]], (lambda: scroll_speed(e["obj"], override_bpm=a["override"])), lambda r: [dict(kind="value", game=e["game"], obj=r)]
    if op == "alg.dominant_bpm":
        from reamber.algorithms.utils.dominant_bpm import dominant_bpm
        e = map_of()
        return [e["obj"]], (lambda: dominant_bpm(e["obj"])), lambda r: [dict(kind="value", game=e["game"], obj=r)]
    if op.startswith("write."):
        g = op.split(".")[1]
        if g == "sm":
            ss = sets("sm")
            if not ss:
                raise Skip()
            e = pick(ss, step["src"], step.get("recent", False))
        else:
            e = map_of((g,))
        return [e["obj"]], (lambda: e["obj"].write()), lambda r: [dict(kind="value", game=g, obj=r)]
    if op.startswith("conv."):
        import reamber.algorithms.convert as C
        _, cname, meth = op.split(".")
        conv = getattr(C, cname)
        g = source_game_of(op, None, None)
        if g in ("sm", "o2jam"):
            ss = sets(g)
            if not ss:
                raise Skip()
            e = pick(ss, step["src"], step.get("recent", False))
        else:
            e = map_of((g,))
        tgt = conv_target(cname)
        kw = {}
        if "move" in a:
            kw["move_right_by"] = a["move"]
        return [e["obj"]], (lambda: getattr(conv, meth)(e["obj"], **kw)), lambda r: conv_entries(tgt, r)
    if op == "ptn.from_note_lists":
        from reamber.algorithms.pattern.Pattern import Pattern
        e = map_of()
        m = e["obj"]
        # the argument is the list of note lists (the two TimedLists are the objects handed over)
        return [m.hits, m.holds], (lambda: Pattern.from_note_lists([m.hits, m.holds], include_tails=a["tails"])), \
            lambda r: [dict(kind="pattern", game=e["game"], obj=r)]
    if op == "ptn.group":
        ps = [e for e in pool if e["kind"] == "pattern"]
        if not ps:
            raise Skip()
        e = pick(ps, step["src"], step.get("recent", False))
        return [e["obj"]], (lambda: e["obj"].group(v_window=a["v"], h_window=a["h"], avoid_jack=a["jack"])), \
            lambda r: [dict(kind="groups", game=e["game"], obj=r, keys=None)]
    if op == "ptn.combinations":
        from reamber.algorithms.pattern.combos.PtnCombo import PtnCombo
        from reamber.algorithms.pattern.filters.PtnFilter import PtnFilterChord, PtnFilterCombo, PtnFilterType
        from reamber.base.Hit import Hit
        from reamber.base.Hold import Hold, HoldTail
        gs = [e for e in pool if e["kind"] == "groups"]
        if not gs:
            raise Skip()
        e = pick(gs, step["src"], step.get("recent", False))
        size = a["size"]
        kw = dict(size=size, make_size2=a["size2"])
        if a["chord"]:
            kw["chord_filter"] = PtnFilterChord.create([[1] * size], keys=8, options=PtnFilterChord.Option.AND_HIGHER).filter
        if a["combo"]:
            kw["combo_filter"] = PtnFilterCombo.create([list(range(size))], keys=8, options=PtnFilterCombo.Option.REPEAT).filter
        if a["typ"]:
            kw["type_filter"] = PtnFilterType.create([[Hit] * size], options=0).filter
        combo = PtnCombo(e["obj"])
        # PtnCombo(groups) keeps the list it was given: the list of groups is the argument
        return [e["obj"]], (lambda: combo.combinations(**kw)), lambda r: [dict(kind="value", game=e["game"], obj=r)]
    raise Skip()


def set_entries(game, s):
    return [dict(kind="mapset", game=game, obj=s)] + [dict(kind="map", game=game, obj=m) for m in s.maps]


def conv_entries(tgt, r):
    out = []
    items = r if isinstance(r, list) else [r]
    for it in items:
        if tgt == "sm":
            out += set_entries("sm", it)
        else:
            out.append(dict(kind="map", game=tgt, obj=it))
    return out


# ============================================================================================ run

def arg_closure(o, heap):
    """cells reachable from an argument: by reference (walk) and through memory — a frame that is a view (`tl[a:b]`)
    reaches the frame whose buffers it aliases"""
    cells = [[p, r] for p, r in walk(o, heap)]
    have = {r for _, r in cells}
    # a frame keeps the column Series it has handed out (pandas' item cache): `tl.offset` twice is the same object.
    # Such a Series is reachable from the frame by reference, also when the frame is empty and no memory is shared.
    import pandas as pd
    for p, r in list(cells):
        fr = heap.objs[r]
        if isinstance(fr, pd.DataFrame):
            for ser in list(getattr(fr, "_item_cache", {}).values()):
                q = heap.by_id.get(id(ser))
                if q is not None and q not in have:
                    have.add(q)
                    cells.append([p + "~cache", q])
    for p, r in list(cells):
        if not is_leaf(heap.objs[r]):
            continue
        for q in range(len(heap.objs)):
            if q not in have and is_leaf(heap.objs[q]) and aliased(heap.objs[r], heap.objs[q]):
                have.add(q)
                cells.append([p + "~base", q])
    return cells


def table(drv):
    if not _TABLE:
        t = drv.call("c14.table")["ok"]
        for s in t:
            _TABLE[s["name"]] = s
        # tie of the harness' own tables to the source: list slots of every chart class, converter classes
        import dataclasses
        import reamber.algorithms.convert as C
        from reamber.base.lists.TimedList import TimedList
        for g in GAMES:
            m = K(g)["map"]()
            slots = list(m.objs) + [f.name for f in dataclasses.fields(m) if isinstance(getattr(m, f.name), TimedList)]
            if sorted(slots) != sorted(SLOTS[g]):
                raise RuntimeError(f"list slots of {g} changed in the source: {sorted(slots)} vs {sorted(SLOTS[g])}")
        convs = sorted(n for n in dir(C) if "To" in n and isinstance(getattr(C, n), type))
        if convs != sorted(c for cs in CONVERTERS.values() for c in cs):
            raise RuntimeError(f"converter classes changed in the source: {convs}")
    return _TABLE


def _intern(frames, index, o, heap):
    key = digest(o, heap)
    i = index.get(key)
    if i is None:
        i = len(frames)
        frames.append(content(o, heap))
        index[key] = i
    return i


def observe(case):
    """runs the history against the real code; returns the abstract observation for the driver + bookkeeping"""
    warnings.filterwarnings("ignore")
    heap = Heap()
    pool = build_pool(case)
    frames, findex = [], {}
    for e in pool:
        walk(e["obj"], heap)

    def snap():
        out, r = [], 0
        while r < len(heap.objs):            # a container that gained a child grows the heap while it is rendered
            out.append(_intern(frames, findex, heap.objs[r], heap))
            r += 1
        return out

    heap0 = snap()
    known = len(heap0)
    events, tags = [], []
    nonempty = False
    for si, step in enumerate(case["steps"]):
        op = step["op"]
        try:
            args, thunk, entries = prepare_call(step, pool)
        except Skip:
            tags.append("skip")
            continue
        arg_cells = [arg_closure(o, heap) for o in args]
        before = snap()
        n = len(before)
        pre_news = before[known:]          # objects built for this call (a hand-made list / DataFrame argument)
        try:
            res = thunk()
            raised = None
        except Exception as ex:       # an operation that raises returns no value: the property is silent about it
            raised = type(ex).__name__
            res = None
        if raised is not None:
            tags.append("raises:" + op)
            after_all = snap()
            events.append(dict(sig=op, step=si, raised=raised, args=arg_cells, n=n, before=before, after=after_all[:n],
                               news=after_all[n:], ret=[], mutated=False, pre_news=pre_news))
            known = len(after_all)
            continue
        new_entries = entries(res)
        res_cells = []
        for p, r in walk(None if isinstance(res, (str, bytes)) else res, heap):
            if r not in res_cells:
                res_cells.append(r)
        # aliasing: a new leaf cell whose buffers overlap an old leaf cell's buffers makes that old cell reachable
        ret = list(res_cells)
        alias = []
        for r in res_cells:
            if r < n or not is_leaf(heap.objs[r]):
                continue
            for q in range(n):
                oq = heap.objs[q]
                if q not in ret and is_leaf(oq) and aliased(heap.objs[r], oq):
                    ret.append(q)
                    alias.append(q)
        # cell objects (lists / dicts inside object columns) of the result that are cells of the heap already — the
        # class-level defaults — make that old cell reachable from the result; one object in several rows is tagged
        # A result that is NOT made by deepcopy (filter, sort, append, …) holds the cell objects of its arguments'
        # frames by design (a new frame, the same per-note lists): those are not counted, whatever else made them
        # cells of the heap (e.g. a client's dict handed to `from_dict` earlier).
        sig0 = _TABLE.get(op)
        arg_cellobjs = set()
        if not (sig0 and sig0["deep"]):
            for cells in arg_cells:
                for _, r in cells:
                    o = heap.objs[r]
                    if is_leaf(o):
                        for buf in buffers(o):
                            if buf.dtype == object:
                                arg_cellobjs.update(id(v) for v in buf.reshape(-1).tolist() if isinstance(v, (list, dict, set)))
        for r in res_cells:
            o = heap.objs[r]
            if r < n or not is_leaf(o):
                continue
            ids = []
            for buf in buffers(o):
                if buf.dtype == object:
                    for v in buf.reshape(-1).tolist():
                        if isinstance(v, (list, dict, set)):
                            ids.append(id(v))
                            q = heap.by_id.get(id(v))
                            if q is not None and q < n and q not in ret and id(v) not in arg_cellobjs:
                                ret.append(q)
                                alias.append(q)
            if len(set(ids)) < len(ids):
                tags.append("rows-share-cell-object")
        after_all = snap()
        sig = _TABLE.get(op)
        ev = dict(sig=op, step=si, args=arg_cells, n=n, before=before, after=after_all[:n], news=after_all[n:], ret=ret,
                  mutated=False, alias=alias, pre_news=pre_news)
        if sig is not None and sig["copy"] and res_cells:
            # probe 1: every buffer / container of the result is changed in place (cell objects are replaced)
            undo = mutate_result(res_cells, heap, deep=False)
            try:
                ev["after_mut"] = snap()[:len(after_all)]
            finally:
                undo_mutation(undo)
            ev["mutated"] = True
            if sig["deep"]:
                # probe 2 (results made by deepcopy): the cell objects themselves (lists inside object columns)
                undo = mutate_result(res_cells, heap, deep=True)
                try:
                    ev["after_deep"] = snap()[:len(after_all)]
                finally:
                    undo_mutation(undo)
                # probe 3 (results made by deepcopy): everything INSIDE the cell objects and containers, at every
                # depth — a record of a key sound list gets other field values and a new field, a list inside a
                # record other elements; scalar members of lists / dicts are replaced
                undo = mutate_result(res_cells, heap, deep="nested")
                if undo:
                    tags.append("probe:nested")
                    try:
                        ev["after_nested"] = snap()[:len(after_all)]
                    finally:
                        undo_mutation(undo)
            if snap()[:len(after_all)] != after_all:
                tags.append("restore-failed")
        events.append(ev)
        known = len(heap.objs)
        tags.append(op)
        if is_listop(op) and args:
            tags.append("cls:" + type(args[0]).__name__)
        if any(len(frames[before[r]]["rows"]) > 0 for cells in arg_cells for _, r in cells if is_leaf(heap.objs[r])):
            nonempty = True
        for e in new_entries:
            if e["kind"] != "value":
                pool.append(e)
    return dict(frames=frames, heap0=heap0, events=events, final=snap()), tags, nonempty


def run(case, drv):
    table(drv)
    obs, tags, nonempty = observe(case)
    r = drv.call("c14.check", frames=obs["frames"], heap0=obs["heap0"], events=obs["events"], final=obs["final"])
    if "ok" not in r:
        return dict(claim="history", ok=None, agree=False, dom=False, tags=tags, nontrivial=False, detail=dict(driver=r))
    r = r["ok"]
    ok, agree, kf = True, True, None
    detail = {}
    bad = []
    kf_events = []
    for ev, v in zip(obs["events"], r["events"]):
        if ev.get("raised"):
            # heap consistency only (the model does not step); a raising call that changed its arguments is reported
            # as a disagreement, not as a violation: the property speaks of operations that return
            if not v["frame_ok"]:
                agree = False
                bad.append(dict(step=ev["step"], op=ev["sig"], raised=ev["raised"], changed=v["written"]))
            continue
        e_ok = v["frame_ok"] and v["fresh_ok"] and v["mut_ok"] and v["deep_ok"] and v["nested_ok"]
        if not e_ok:
            ok = False
            kf_e = None          # D38 / D39 are repaired: no open finding touches this property
            kf_events.append(kf_e)
            bad.append(dict(step=ev["step"], op=ev["sig"], frame_ok=v["frame_ok"], fresh_ok=v["fresh_ok"], mut_ok=v["mut_ok"],
                            deep_ok=v["deep_ok"], written=_name_refs(ev, v["written"]), shared=_name_refs(ev, v["shared"]),
                            reached_by_mutation=_name_refs(ev, v["mut_changed"]),
                            reached_through_cell_objects=_name_refs(ev, v["deep_changed"]), nested_ok=v["nested_ok"],
                            reached_through_nested_values=_name_refs(ev, v["nested_changed"]), kf=kf_e, diff=_diff(obs, ev, v)))
        if not v["within"] or not v["known"] or not v["mut_within"]:
            agree = False
            if e_ok:
                bad.append(dict(step=ev["step"], op=ev["sig"], within=v["within"], known=v["known"], shared=_name_refs(ev, v["shared"])))
    if not ok and kf_events and all(k is not None for k in kf_events):
        kf = sorted(set(kf_events))[0]
    if not r["legal"] or not r["final_equal"]:
        agree = False
        detail["model"] = dict(legal=r["legal"], final_equal=r["final_equal"], first_illegal=r.get("first_illegal"))
    # outside the theorems' hypotheses: a history that is not legal over the model's table
    dom = bool(r["legal"])
    tags = tags + [k for k in set(kf_events) if k]
    if bad:
        bad.sort(key=lambda b: b.get("kf") is not None)          # events outside every known finding first
        detail["events"] = bad[:4]
    ncalls = sum(1 for ev in obs["events"] if not ev.get("raised"))
    return dict(claim="history", ok=ok, agree=agree, dom=dom, kf=kf, tags=sorted(set(tags)), nontrivial=ncalls > 0 and nonempty,
                detail=detail)


def _has_list_cells(frame):
    return any(dt == "object" and any(row[j].startswith("l[") for row in frame["rows"]) for j, (_, dt) in enumerate(frame["cols"]))


def _name_refs(ev, refs):
    names = {}
    for ai, cells in enumerate(ev["args"]):
        for p, r in cells:
            names.setdefault(r, f"arg{ai}:{p}")
    return [names.get(r, f"heap:{r}") for r in refs]


def _diff(obs, ev, v):
    """first differing cell, for the replay's detail"""
    fr = obs["frames"]
    out = []
    for r in (v["written"] + v["mut_changed"] + v["deep_changed"] + v["nested_changed"])[:2]:
        b0 = fr[ev["before"][r]] if r < len(ev["before"]) else None
        b = fr[ev["after"][r]] if r < len(ev["after"]) else None
        src = ev.get("after_mut") if r in v["mut_changed"] else ev.get("after_deep") if r in v["deep_changed"] \
            else ev.get("after_nested") if r in v["nested_changed"] else None
        out.append(dict(ref=r, before=_short(b0), after_call=_short(b) if b != b0 else "same",
                        after_mutating_result=_short(fr[src[r]]) if src else None))
    return out


def _short(f):
    if f is None:
        return None
    return dict(kind=f["kind"], cols=f["cols"][:12], labels=f["labels"][:6], rows=f["rows"][:3])
