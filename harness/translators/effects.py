"""Generated/Effects.lean — the facts of the source that the C14 effect table (Model/Effects.lean: opTable) rests on:

* the converter classes and their `convert*` entry points (reamber/algorithms/convert/__init__.py),
* the games that have a writer (`write` on the Map / MapSet class),
* per anchored function, whether its body makes a copy before it mutates (`deepcopy(...)`, `.deepcopy()`, `.copy()`)
  — read with `ast`, so dropping the copy from the source changes this file and breaks `Props/C14.lean: source_tie`,
* the converters that assign the source chart's `tags` attribute straight to the result (finding N14a).
"""
import ast
import inspect
import os
import textwrap

from .lean_syntax import string, lst


def _calls_copy(func):
    src = textwrap.dedent(inspect.getsource(func))
    tree = ast.parse(src)
    for node in ast.walk(tree):
        if isinstance(node, ast.Call):
            f = node.func
            if isinstance(f, ast.Name) and f.id == "deepcopy":
                return True
            if isinstance(f, ast.Attribute) and f.attr in ("deepcopy", "copy"):
                return True
    return False


def _deepcopies_object_columns(cls):
    """`__deepcopy__` is defined on the list class and calls `deepcopy` on values inside a loop/comprehension
    (a DataFrame deep copy alone copies an object column's pointers, not the objects)"""
    f = vars(cls).get("__deepcopy__")
    if f is None:
        return False
    tree = ast.parse(textwrap.dedent(inspect.getsource(f)))
    for node in ast.walk(tree):
        if isinstance(node, (ast.ListComp, ast.For, ast.GeneratorExp)):
            for sub in ast.walk(node):
                if isinstance(sub, ast.Call) and isinstance(sub.func, ast.Name) and sub.func.id == "deepcopy":
                    return True
    return False


def _assigns_tags(func):
    """`x.tags = y.tags` (an attribute copied by reference)"""
    tree = ast.parse(textwrap.dedent(inspect.getsource(func)))
    for node in ast.walk(tree):
        if isinstance(node, ast.Assign) and len(node.targets) == 1:
            t, v = node.targets[0], node.value
            if isinstance(t, ast.Attribute) and t.attr == "tags" and isinstance(v, ast.Attribute) and v.attr == "tags":
                return True
    return False


def generate(repo):
    import reamber.algorithms.convert as C
    from reamber.algorithms.generate.full_ln import full_ln
    from reamber.algorithms.generate.sv_normalize import sv_normalize
    from reamber.algorithms.osu.hitsound_copy import hitsound_copy
    from reamber.base.Map import Map
    from reamber.base.MapSet import MapSet
    from reamber.base.lists.TimedList import TimedList
    from reamber.bms.BMSMap import BMSMap
    from reamber.o2jam.O2JMapSet import O2JMapSet
    from reamber.osu.OsuMap import OsuMap
    from reamber.quaver.QuaMap import QuaMap
    from reamber.sm.SMMapSet import SMMapSet

    convs = []
    tags = []
    for name in sorted(n for n in dir(C) if "To" in n and inspect.isclass(getattr(C, n))):
        cls = getattr(C, name)
        meths = sorted(m for m in vars(cls) if m.startswith("convert"))
        convs.append((name, meths))
        for m in meths:
            if _assigns_tags(getattr(cls, m).__func__):
                tags.append(f"conv.{name}.{m}")
    writers = [g for g, cls in [("osu", OsuMap), ("quaver", QuaMap), ("sm", SMMapSet), ("bms", BMSMap), ("o2jam", O2JMapSet)]
               if callable(getattr(cls, "write", None))]
    copies = [
        ("list.move_start_to", _calls_copy(TimedList.move_start_to)),
        ("list.move_end_to", _calls_copy(TimedList.move_end_to)),
        ("list.deepcopy", _calls_copy(TimedList.deepcopy)),
        ("map.deepcopy", _calls_copy(Map.deepcopy)),
        ("map.rate", _calls_copy(Map.rate)),
        ("mapset.deepcopy", _calls_copy(MapSet.deepcopy)),
        ("mapset.rate", _calls_copy(MapSet.rate)),
        ("alg.full_ln", _calls_copy(full_ln)),
        ("alg.hitsound_copy", _calls_copy(hitsound_copy)),
        ("alg.sv_normalize", _calls_copy(sv_normalize)),
        ("list.__deepcopy__.object_columns", _deepcopies_object_columns(TimedList)),
    ]
    # the public surface of the anchored classes: every function / property / class- / static method written in the
    # class body (dunder methods included, single-underscore helpers and dataclass-generated methods excluded);
    # the per-column getters made by `list_props` / `map_props` are named "<Class>.<column>"
    from reamber.algorithms.convert.ConvertBase import ConvertBase
    from reamber.algorithms.pattern.Pattern import Pattern
    from reamber.base.lists.BpmList import BpmList
    from reamber.base.lists.notes.HoldList import HoldList
    surface = []
    for cls in (TimedList, HoldList, BpmList, Map, MapSet, ConvertBase, Pattern):
        for n, v in vars(cls).items():
            f = v.fget if isinstance(v, property) else getattr(v, "__func__", v)
            if not inspect.isfunction(f):
                continue
            if n.startswith("_") and not (n.startswith("__") and n.endswith("__")):
                continue
            if f.__code__.co_filename == "<string>":        # generated by @dataclass
                continue
            surface.append(f"{cls.__name__}.{n}")
    file_writers = [g for g, cls in [("osu", OsuMap), ("quaver", QuaMap), ("sm", SMMapSet), ("bms", BMSMap), ("o2jam", O2JMapSet)]
                    if callable(getattr(cls, "write_file", None))]
    b = lambda x: "true" if x else "false"
    txt = f"""/- GENERATED by harness/translators/effects.py from the reamberPy source — do not edit. -/
namespace Reamber.Generated.Effects

/-- `convert*` entry points of the converter classes of `reamber.algorithms.convert`, as "conv.<Class>.<method>" -/
def converterOps : List String :=
  {lst([f"conv.{c}.{m}" for c, ms in convs for m in ms], string)}

/-- games whose chart (set) class has a `write` method, as "write.<game>" -/
def writerOps : List String := {lst(["write." + w for w in writers], string)}

/-- per operation of the table: does the body of the anchored function make a copy (`deepcopy(..)`, `.deepcopy()`,
`.copy()`) — read from the source with `ast` -/
def makesCopy : List (String × Bool) :=
  {lst(copies, lambda c: "(" + string(c[0]) + ", " + b(c[1]) + ")")}

/-- converter entry points that assign `result.tags = source.tags` (the list object itself; D38) -/
def assignsTags : List String := {lst(tags, string)}

/-- games whose chart (set) class has a `write_file` method, as "write_file.<game>" -/
def fileWriterOps : List String := {lst(["write_file." + w for w in file_writers], string)}

/-- the public surface of TimedList, HoldList, BpmList, Map, MapSet, ConvertBase, Pattern: every function, property,
class method and static method written in the class body (dunder methods included; `_helpers` and the methods
`@dataclass` generates excluded), as "<Class>.<name>" -/
def publicSurface : List String :=
  {lst(surface, string)}

end Reamber.Generated.Effects
"""
    return {"Effects.lean": txt}
