"""Generated/OsuTables.lean — what the osu! model (C01) takes from the source: the numeric constants of the column
mapping and of value<->code, the dataclass defaults of OsuMapMeta, the item constructors' defaults, the key table of
`_read_meta_string_list` (key, attribute, conversion) and the line templates of `write_meta_string_list`
(literal prefix, attribute, format)."""
import ast
import dataclasses
import inspect
import os
import textwrap
from fractions import Fraction

from .lean_syntax import rat, string, lst


def _func_consts(func):
    """numeric literals of a function body in source order (unary minus folded), docstring skipped"""
    src = textwrap.dedent(inspect.getsource(func))
    tree = ast.parse(src)
    fn = tree.body[0]
    out = []

    class V(ast.NodeVisitor):
        def visit_UnaryOp(self, node):
            if isinstance(node.op, ast.USub) and isinstance(node.operand, ast.Constant) and isinstance(node.operand.value, (int, float)):
                out.append(-node.operand.value)
            else:
                self.generic_visit(node)

        def visit_Constant(self, node):
            if isinstance(node.value, (int, float)) and not isinstance(node.value, bool):
                out.append(node.value)

    body = fn.body
    if body and isinstance(body[0], ast.Expr) and isinstance(getattr(body[0], "value", None), ast.Constant) and isinstance(body[0].value.value, str):
        body = body[1:]
    for st in body:
        V().visit(st)
    return out


def _conv_kind(expr):
    s = ast.unparse(expr)
    return {"v.strip()": "strip", "int(v)": "int", "bool(int(v))": "boolint", "float(v)": "float",
            "OsuSampleSet.from_string(v.strip())": "sampleset",
            "[i.strip() for i in v.split(' ') if i]": "tags"}.get(s, "other:" + s)


def _key_table(cls):
    src = textwrap.dedent(inspect.getsource(cls._read_meta_string_list))
    fn = ast.parse(src).body[0]
    rows = []

    def walk_if(node):
        t = node.test
        if (isinstance(t, ast.Compare) and isinstance(t.left, ast.Name) and t.left.id == "k" and len(t.ops) == 1
                and isinstance(t.ops[0], ast.Eq) and isinstance(t.comparators[0], ast.Constant)):
            key = t.comparators[0].value
            st = node.body[0]
            if isinstance(st, ast.Assign) and isinstance(st.targets[0], ast.Attribute) and len(node.body) == 1 \
                    and not key.startswith("//"):
                rows.append((key, st.targets[0].attr, _conv_kind(st.value)))
        for o in node.orelse:
            if isinstance(o, ast.If):
                walk_if(o)

    for st in ast.walk(fn):
        if isinstance(st, ast.For):
            for b in st.body:
                if isinstance(b, ast.If):
                    walk_if(b)
    return rows


def _write_template(cls):
    src = textwrap.dedent(inspect.getsource(cls.write_meta_string_list))
    fn = ast.parse(src).body[0]
    ret = [n for n in ast.walk(fn) if isinstance(n, ast.Return)][0]
    rows = []
    for el in ret.value.elts:
        if isinstance(el, ast.Constant):
            rows.append((el.value, "", ""))
        elif isinstance(el, ast.JoinedStr):
            lits = [v.value for v in el.values if isinstance(v, ast.Constant)]
            fv = [v for v in el.values if isinstance(v, ast.FormattedValue)]
            prefix = lits[0] if el.values and isinstance(el.values[0], ast.Constant) else ""
            suffix = lits[-1] if len(lits) > 1 or (lits and not isinstance(el.values[0], ast.Constant)) else ""
            expr = ast.unparse(fv[0].value) if fv else ""
            spec = ast.unparse(fv[0].format_spec).strip("f'\"") if fv and fv[0].format_spec is not None else ""
            rows.append((prefix, expr + (":" + spec if spec else ""), suffix))
        elif isinstance(el, ast.Starred):
            rows.append(("*", ast.unparse(el.value), ""))
    return rows


def _lean_default(v):
    if isinstance(v, bool):
        return "true" if v else "false"
    if isinstance(v, (int, float)):
        return rat(Fraction(repr(v)) if isinstance(v, float) else v)
    if isinstance(v, str):
        return string(v)
    return None


def generate(repo):
    from reamber.osu.OsuNoteMeta import OsuNoteMeta
    from reamber.osu.OsuBpm import OsuBpm
    from reamber.osu.OsuSv import OsuSv
    from reamber.osu.OsuSample import OsuSample
    from reamber.osu.OsuHit import OsuHit
    from reamber.osu.OsuHold import OsuHold
    from reamber.osu.OsuMapMeta import OsuMapMeta

    consts = dict(xToCol=_func_consts(OsuNoteMeta.x_axis_to_column), colToX=_func_consts(OsuNoteMeta.column_to_x_axis),
                  bpmCode=_func_consts(OsuBpm.code_to_value) + _func_consts(OsuBpm.value_to_code),
                  svCode=_func_consts(OsuSv.code_to_value) + _func_consts(OsuSv.value_to_code))
    num_defaults, bool_defaults, str_defaults = [], [], []
    for f in dataclasses.fields(OsuMapMeta):
        if f.default is dataclasses.MISSING:
            continue
        v = f.default
        if isinstance(v, bool):
            bool_defaults.append((f.name, v))
        elif isinstance(v, (int, float)):
            num_defaults.append((f.name, v))
        elif isinstance(v, str):
            str_defaults.append((f.name, v))

    def sig_defaults(cls):
        out = []
        for n, p in inspect.signature(cls.__init__).parameters.items():
            if p.default is not inspect.Parameter.empty and isinstance(p.default, (int, float, bool)) :
                out.append((cls.__name__ + "." + n, int(p.default) if isinstance(p.default, bool) else p.default))
        return out
    item_defaults = sig_defaults(OsuHit) + sig_defaults(OsuHold) + sig_defaults(OsuBpm) + sig_defaults(OsuSv) + sig_defaults(OsuSample)
    keys = _key_table(OsuMapMeta)
    tmpl = _write_template(OsuMapMeta)
    num_fn = getattr(inspect.getmodule(OsuMapMeta), "_num", None)
    if num_fn is None:
        num_body = "(no _num helper in the source)"
    else:
        fn = ast.parse(textwrap.dedent(inspect.getsource(num_fn))).body[0]
        body = fn.body[1:] if isinstance(fn.body[0], ast.Expr) and isinstance(fn.body[0].value, ast.Constant) else fn.body
        num_body = "; ".join(ast.unparse(st) for st in body)
    shape = [(a, ("num" if b.startswith("_num(") else "g" if b.endswith(":g") else "uni" if b.startswith("unidecode(")
                  else "*" if a == "*" else ""), c)
             for a, b, c in tmpl]

    def pairs(xs, f):
        return "[" + ",\n   ".join(f"({string(a)}, {f(b)})" for a, b in xs) + "]"
    def triples(xs):
        return "[" + ",\n   ".join(f"({string(a)}, {string(b)}, {string(c)})" for a, b, c in xs) + "]"
    txt = f"""/- GENERATED by harness/translators/osu.py from the reamberPy source — do not edit. -/
namespace Reamber.Generated.Osu

/-- numeric literals of `OsuNoteMeta.x_axis_to_column` (source order) -/
def xToColConsts : List Rat := {lst(consts['xToCol'], lambda v: rat(Fraction(repr(v)) if isinstance(v, float) else v))}
/-- numeric literals of `OsuNoteMeta.column_to_x_axis` -/
def colToXConsts : List Rat := {lst(consts['colToX'], lambda v: rat(Fraction(repr(v)) if isinstance(v, float) else v))}
/-- numeric literals of `OsuBpm.code_to_value`, `OsuBpm.value_to_code` -/
def bpmCodeConsts : List Rat := {lst(consts['bpmCode'], lambda v: rat(Fraction(repr(v)) if isinstance(v, float) else v))}
/-- numeric literals of `OsuSv.code_to_value`, `OsuSv.value_to_code` -/
def svCodeConsts : List Rat := {lst(consts['svCode'], lambda v: rat(Fraction(repr(v)) if isinstance(v, float) else v))}

/-- numeric dataclass defaults of `OsuMapMeta` -/
def metaNumDefaults : List (String × Rat) :=
  {pairs(num_defaults, _lean_default)}
/-- boolean dataclass defaults of `OsuMapMeta` -/
def metaBoolDefaults : List (String × Bool) :=
  {pairs(bool_defaults, _lean_default)}
/-- string dataclass defaults of `OsuMapMeta` -/
def metaStrDefaults : List (String × String) :=
  {pairs(str_defaults, _lean_default)}
/-- numeric default arguments of the item constructors -/
def itemDefaults : List (String × Rat) :=
  {pairs(item_defaults, _lean_default)}

/-- `_read_meta_string_list`: (key, attribute, conversion) in source order -/
def metaKeyTable : List (String × String × String) :=
  {triples(keys)}

/-- `write_meta_string_list`: (literal prefix, formatted expression[:spec], literal suffix) per output line -/
def metaWriteTemplate : List (String × String × String) :=
  {triples(tmpl)}

/-- body of the `_num` helper that renders numeric metadata (`Tok.num` in the model) -/
def numHelperBody : String := {string(num_body)}

/-- the same lines as (prefix, "num" | "uni" | "", suffix): what the model's `writeMeta` must reproduce -/
def metaWriteShape : List (String × String × String) :=
  {triples(shape)}

end Reamber.Generated.Osu
"""
    return {"OsuTables.lean": txt}
