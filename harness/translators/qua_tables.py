"""Generated/QuaTables.lean — the tables and constants of reamber/quaver the C06 model depends on, read from the
source: metadata keys/defaults/annotations (`QuaMapMeta`), `.get` defaults of `_read_bpms` / `_read_svs`,
`Bpm.__init__`'s metronome default, and for the four list classes the rename / fillna / astype / drop tables and the
lane shift of `from_yaml` / `to_yaml` (by `ast`), the order of the section pops of `QuaMap.read` / writes of `write`."""
import ast
import dataclasses
import inspect
import os
import textwrap

from .lean_syntax import rat, string, lst


def _src(repo, rel):
    return open(os.path.join(repo, rel), encoding="utf-8").read()


def _func(tree, cls, name):
    for n in ast.walk(tree):
        if isinstance(n, ast.ClassDef) and n.name == cls:
            for f in n.body:
                if isinstance(f, ast.FunctionDef) and f.name == name:
                    return f
    raise KeyError(f"{cls}.{name}")


def _const(n):
    if isinstance(n, ast.Constant):
        return n.value
    if isinstance(n, ast.UnaryOp) and isinstance(n.op, ast.USub) and isinstance(n.operand, ast.Constant):
        return -n.operand.value
    if isinstance(n, ast.Name):
        return n.id
    raise ValueError(ast.dump(n))


def _dict_calls(f, method):
    """keyword pairs of every `dict(...)` passed as first argument to `.method(...)`, in source order"""
    out = []
    for n in sorted((n for n in ast.walk(f) if isinstance(n, ast.Call)), key=lambda n: (n.lineno, n.col_offset)):
        if isinstance(n.func, ast.Attribute) and n.func.attr == method and n.args:
            a = n.args[0]
            if isinstance(a, ast.Call) and isinstance(a.func, ast.Name) and a.func.id == "dict":
                out.extend((k.arg, _const(k.value)) for k in a.keywords)
    return out


def _target_name(t):
    if isinstance(t, ast.Attribute):
        return t.attr
    if isinstance(t, ast.Subscript):
        return _const(t.slice)
    raise ValueError(ast.dump(t))


def _fills(f):
    """(column, value) of every `x = <...>.fillna(v)` assignment, in source order"""
    out = []
    for n in sorted((n for n in ast.walk(f) if isinstance(n, ast.Assign)), key=lambda n: n.lineno):
        v = n.value
        if isinstance(v, ast.Call) and isinstance(v.func, ast.Attribute) and v.func.attr == "fillna":
            out.append((_target_name(n.targets[0]), _const(v.args[0])))
    return out


def _shifts(cls_node):
    """(column, op, amount) of every augmented assignment in the class (from_yaml then to_yaml)"""
    out = []
    for n in sorted((n for n in ast.walk(cls_node) if isinstance(n, ast.AugAssign)), key=lambda n: n.lineno):
        amount = n.value
        out.append((_target_name(n.target), type(n.op).__name__, _const(amount) if isinstance(amount, ast.Constant) else 0))
    return out


def _drops(f):
    return [_const(n.args[0]) for n in sorted((n for n in ast.walk(f) if isinstance(n, ast.Call)), key=lambda n: n.lineno)
            if isinstance(n.func, ast.Attribute) and n.func.attr == "drop" and n.args]


def _get_defaults(f):
    """(key, default) of every `<x>.get("Key", default)` in source order"""
    out = []
    for n in sorted((n for n in ast.walk(f) if isinstance(n, ast.Call)), key=lambda n: (n.lineno, n.col_offset)):
        if isinstance(n.func, ast.Attribute) and n.func.attr == "get" and len(n.args) == 2 and isinstance(n.args[0], ast.Constant):
            out.append((n.args[0].value, n.args[1]))
    return out


def _yv(v):
    if isinstance(v, bool):
        return f".bool {'true' if v else 'false'}"
    if isinstance(v, int):
        return f".int ({v})"
    if isinstance(v, float):
        return f".flt {rat(v)}"
    if isinstance(v, str):
        return f".str {string(v)}"
    if isinstance(v, list) and all(isinstance(e, str) for e in v):
        return f".strs {lst(v, string)}"
    raise ValueError(f"metadata default {v!r}")


def _pairs(xs):
    return lst(xs, lambda p: f"({string(p[0])}, {string(str(p[1]))})")


def _rpairs(xs):
    return lst(xs, lambda p: f"({string(p[0])}, {rat(p[1])})")


def generate(repo):
    from reamber.quaver.QuaMapMeta import QuaMapMeta
    from reamber.base.Bpm import Bpm
    meta_tree = ast.parse(_src(repo, "reamber/quaver/QuaMapMeta.py"))
    rd = _func(meta_tree, "QuaMapMeta", "_read_metadata")
    wr = _func(meta_tree, "QuaMapMeta", "_write_meta")
    # _read_metadata: self.<attr> = d.get("<Key>", self.<attr>)   /   tags: [.. d.get("Tags", "").split(" ") ..]
    read_keys, tags_read = [], None
    for n in rd.body:
        if not isinstance(n, ast.Assign):
            continue
        attr = n.targets[0].attr
        gets = _get_defaults(n)
        if len(gets) != 1:
            raise ValueError(f"_read_metadata: {attr}")
        key, dflt = gets[0]
        if isinstance(dflt, ast.Attribute):
            if dflt.attr != attr:
                raise ValueError(f"_read_metadata: {attr} defaults to {dflt.attr}")
        else:
            seps = [_const(c.args[0]) for c in ast.walk(n) if isinstance(c, ast.Call) and isinstance(c.func, ast.Attribute)
                    and c.func.attr == "split"]
            tags_read = (key, _const(dflt), seps[0] if seps else "?")
        read_keys.append((key, attr))
    # _write_meta: {"<Key>": self.<attr>, "Tags": " ".join(self.tags)}
    ret = [n for n in ast.walk(wr) if isinstance(n, ast.Return)][0].value
    write_keys, tags_join = [], "?"
    for k, v in zip(ret.keys, ret.values):
        if isinstance(v, ast.Attribute):
            write_keys.append((k.value, v.attr))
        else:
            write_keys.append((k.value, v.args[0].attr))
            tags_join = _const(v.func.value)
    fields = {f.name: f for f in dataclasses.fields(QuaMapMeta)}

    def default_of(attr):
        f = fields[attr]
        return f.default if f.default is not dataclasses.MISSING else f.default_factory()

    def annot_of(attr):
        t = fields[attr].type
        return t if isinstance(t, str) else getattr(t, "__name__", None) and (
            str(t).replace("typing.", "") if "typing" in str(t) else t.__name__)

    meta_table = [(k, default_of(a)) for k, a in write_keys]
    annotations = [(k, annot_of(a)) for k, a in write_keys]

    map_tree = ast.parse(_src(repo, "reamber/quaver/QuaMap.py"))
    bpm_defaults = [(k, _const(d)) for k, d in _get_defaults(_func(map_tree, "QuaMap", "_read_bpms"))]
    sv_defaults = [(k, _const(d)) for k, d in _get_defaults(_func(map_tree, "QuaMap", "_read_svs"))]
    pops = [n.args[0].value for n in sorted((n for n in ast.walk(_func(map_tree, "QuaMap", "read")) if isinstance(n, ast.Call)),
                                             key=lambda n: n.lineno)
            if isinstance(n.func, ast.Attribute) and n.func.attr == "pop"]
    writes = [_const(n.targets[0].slice) for n in _func(map_tree, "QuaMap", "write").body
              if isinstance(n, ast.Assign) and isinstance(n.targets[0], ast.Subscript)]
    metronome = inspect.signature(Bpm.__init__).parameters["metronome"].default

    def cls_node(rel, cls):
        t = ast.parse(_src(repo, rel))
        return t, [n for n in ast.walk(t) if isinstance(n, ast.ClassDef) and n.name == cls][0]

    hit_t, hit_c = cls_node("reamber/quaver/lists/notes/QuaHitList.py", "QuaHitList")
    hold_t, hold_c = cls_node("reamber/quaver/lists/notes/QuaHoldList.py", "QuaHoldList")
    bpm_t, bpm_c = cls_node("reamber/quaver/lists/QuaBpmList.py", "QuaBpmList")
    sv_t, sv_c = cls_node("reamber/quaver/lists/QuaSvList.py", "QuaSvList")
    hit_from, hit_to = _func(hit_t, "QuaHitList", "from_yaml"), _func(hit_t, "QuaHitList", "to_yaml")
    hold_from, hold_to = _func(hold_t, "QuaHoldList", "from_yaml"), _func(hold_t, "QuaHoldList", "to_yaml")
    bpm_to, sv_to = _func(bpm_t, "QuaBpmList", "to_yaml"), _func(sv_t, "QuaSvList", "to_yaml")

    def shifts(c):
        return lst(_shifts(c), lambda p: f"({string(p[0])}, {string(p[1])}, ({int(p[2])} : Int))")

    txt = f"""/- GENERATED by harness/translators/qua_tables.py from the reamberPy source — do not edit. -/
import Reamber.Model.Qua
namespace Reamber.Generated.Qua
open Reamber.Qua

/-- `QuaMapMeta._write_meta` keys in order, each with the dataclass default of the attribute it writes -/
def metaTable : Rec := {lst(meta_table, lambda p: f"({string(p[0])}, {_yv(p[1])})")}
/-- `_read_metadata`: (YAML key, attribute) in source order -/
def metaReadKeys : List (String × String) := {_pairs(read_keys)}
/-- `_write_meta`: (YAML key, attribute) in source order -/
def metaWriteKeys : List (String × String) := {_pairs(write_keys)}
/-- the one attribute `_read_metadata` does not read with `d.get(key, self.attr)`: (key, default, separator) -/
def tagsRead : String × String × String := ({string(tags_read[0])}, {string(tags_read[1])}, {string(tags_read[2])})
def tagsJoin : String := {string(tags_join)}
/-- annotated type of every attribute, by YAML key -/
def metaAnnotations : List (String × String) := {_pairs(annotations)}
/-- `QuaMap._read_bpms` / `_read_svs`: `.get(key, default)` -/
def readBpmDefaults : List (String × Rat) := {_rpairs(bpm_defaults)}
def readSvDefaults : List (String × Rat) := {_rpairs(sv_defaults)}
/-- `Bpm.__init__(…, metronome=…)` -/
def bpmMetronomeDefault : Rat := {rat(metronome)}
/-- `from_yaml`: rename tables, fillna values; augmented assignments of the class (from_yaml, then to_yaml) -/
def hitRename : List (String × String) := {_pairs(_dict_calls(hit_from, "rename"))}
def holdRename : List (String × String) := {_pairs(_dict_calls(hold_from, "rename"))}
def hitFill : List (String × Rat) := {_rpairs(_fills(hit_from))}
def holdFill : List (String × Rat) := {_rpairs(_fills(hold_from))}
def hitShift : List (String × String × Int) := {shifts(hit_c)}
def holdShift : List (String × String × Int) := {shifts(hold_c)}
/-- `to_yaml`: astype tables, rename tables, dropped columns -/
def hitAstype : List (String × String) := {_pairs(_dict_calls(hit_to, "astype"))}
def holdAstype : List (String × String) := {_pairs(_dict_calls(hold_to, "astype"))}
def bpmAstype : List (String × String) := {_pairs(_dict_calls(bpm_to, "astype"))}
def svAstype : List (String × String) := {_pairs(_dict_calls(sv_to, "astype"))}
def hitToYaml : List (String × String) := {_pairs(_dict_calls(hit_to, "rename"))}
def holdToYaml : List (String × String) := {_pairs(_dict_calls(hold_to, "rename"))}
def bpmToYaml : List (String × String) := {_pairs(_dict_calls(bpm_to, "rename"))}
def svToYaml : List (String × String) := {_pairs(_dict_calls(sv_to, "rename"))}
def bpmDrop : List String := {lst(_drops(bpm_to), string)}
def holdDrop : List String := {lst(_drops(hold_to), string)}
/-- `QuaMap.read`: order of the `file.pop(...)`; `QuaMap.write`: order of the section assignments -/
def sectionPops : List String := {lst(pops, string)}
def writeSections : List String := {lst(writes, string)}

end Reamber.Generated.Qua
"""
    return {"QuaTables.lean": txt}
