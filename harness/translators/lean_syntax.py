"""helpers to print Python values as Lean terms"""
from fractions import Fraction


def rat(x):
    f = Fraction(x)
    if f.denominator == 1:
        return f"({f.numerator} : Rat)"
    return f"(({f.numerator} : Rat) / {f.denominator})"


def string(s):
    return '"' + s.replace("\\", "\\\\").replace('"', '\\"').replace("\n", "\\n") + '"'


def lst(xs, f=str):
    return "[" + ", ".join(f(x) for x in xs) + "]"


def generate(repo):
    return {}
