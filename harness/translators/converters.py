"""Generated/Converters.lean — what the 16 converter files say, as data (C08).

`ast`-parses every `reamber/algorithms/convert/<A>To<B>.py`: for each `convert*` classmethod the `cast(...)`
calls (target attribute, source attribute, target list class, mapping dict), the `stack().column += p` shift,
the metadata assignments, where the target objects are created relative to the loop and how the result is
assembled (the *shape*).  The list classes' declared columns / defaults (`_props`) and the map classes'
`objs` are read by importing the classes from the same tree.
"""
import ast
import importlib
import os
import re
from fractions import Fraction

from .lean_syntax import string, lst

GAMES = {"Osu": "osu", "Qua": "qua", "SM": "sm", "BMS": "bms", "O2J": "o2j"}


# ------------------------------------------------------------------------------------------ Lean printers

def cell(v):
    import numpy as np
    if isinstance(v, (bool, np.bool_)):
        return f"(.bool {'true' if v else 'false'})"
    if isinstance(v, (int, float, np.integer, np.floating)):
        f = Fraction(v)
        q = f"({f.numerator} : Rat)" if f.denominator == 1 else f"(({f.numerator} : Rat) / {f.denominator})"
        return f"(.num {q})"
    if isinstance(v, str):
        return f"(.str {string(v)})"
    if isinstance(v, bytes):
        return f"(.str {string(v.decode('latin-1'))})"
    return f"(.other {string(type(v).__name__)})"


def dflt(v):
    if isinstance(v, (list, tuple)) and len(v) == 0:
        return ".emptyList"
    return f"(.scalar {cell(v)})"


def opt(x, f=lambda s: s):
    return "none" if x is None else f"(some {f(x)})"


# ------------------------------------------------------------------------------------------ ast helpers

def src_of(node):
    return ast.unparse(node)


def is_name(n, name=None):
    return isinstance(n, ast.Name) and (name is None or n.id == name)


def attr_chain(n):
    """a.b.c -> ['a','b','c'] or None"""
    out = []
    while isinstance(n, ast.Attribute):
        out.append(n.attr)
        n = n.value
    if isinstance(n, ast.Name):
        out.append(n.id)
        return out[::-1]
    return None


KNOWN = set()   # the source objects of the function being parsed (its parameter and loop variable)


def atom_of(n):
    """-> Lean Atom text or None"""
    if isinstance(n, ast.Constant) and isinstance(n.value, str):
        return f"(.lit {string(n.value)})"
    ch = attr_chain(n)
    if ch and len(ch) == 2 and ch[0] in KNOWN:
        return f"(.attr {string(ch[0])} {string(ch[1])})"
    if (isinstance(n, ast.Call) and isinstance(n.func, ast.Attribute) and n.func.attr == "level_name"
            and is_name(n.func.value) and len(n.args) == 1 and is_name(n.args[0]) and not n.keywords
            and n.func.value.id in KNOWN and n.args[0].id in KNOWN):
        return f"(.levelName {string(n.func.value.id)} {string(n.args[0].id)})"
    return None


def atoms_of(n):
    """plain atom or f-string -> list of Atom texts, or None"""
    if isinstance(n, ast.JoinedStr):
        parts = []
        for v in n.values:
            if isinstance(v, ast.Constant):
                parts.append(f"(.lit {string(v.value)})")
            elif isinstance(v, ast.FormattedValue) and v.format_spec is None and v.conversion == -1:
                a = atom_of(v.value)
                if a is None:
                    return None
                parts.append(a)
            else:
                return None
        return parts
    a = atom_of(n)
    return None if a is None else [a]


def meta_expr(n):
    ats = atoms_of(n)
    if ats is not None:
        return f"(.fmt {lst(ats)})"
    # unidecode(x.decode("sjis"))
    if (isinstance(n, ast.Call) and is_name(n.func, "unidecode") and len(n.args) == 1 and not n.keywords):
        a = n.args[0]
        if (isinstance(a, ast.Call) and isinstance(a.func, ast.Attribute) and a.func.attr == "decode"
                and len(a.args) == 1 and isinstance(a.args[0], ast.Constant) and a.args[0].value == "sjis"):
            at = atom_of(a.func.value)
            if at is not None:
                return f"(.decoded {at})"
    # codecs.encode(<atoms>, encoding="shift_jis")
    if (isinstance(n, ast.Call) and attr_chain(n.func) == ["codecs", "encode"] and len(n.args) == 1
            and len(n.keywords) == 1 and n.keywords[0].arg == "encoding"
            and isinstance(n.keywords[0].value, ast.Constant) and n.keywords[0].value.value == "shift_jis"):
        ats = atoms_of(n.args[0])
        if ats is not None:
            return f"(.encoded {lst(ats)})"
    return f"(.opaque {string(src_of(n))})"


def map_from(n):
    if isinstance(n, ast.Constant) and isinstance(n.value, str):
        return f"(.attr {string(n.value)})"
    # <param>.<list>.<col>.apply(str, args={"ascii"}) [.to_numpy()]
    arr = False
    m = n
    if (isinstance(m, ast.Call) and isinstance(m.func, ast.Attribute) and m.func.attr == "to_numpy"
            and not m.args and not m.keywords):
        arr = True
        m = m.func.value
    if (isinstance(m, ast.Call) and isinstance(m.func, ast.Attribute) and m.func.attr == "apply"
            and len(m.args) == 1 and is_name(m.args[0], "str") and len(m.keywords) == 1
            and m.keywords[0].arg == "args" and src_of(m.keywords[0].value) in ("{'ascii'}", "('ascii',)", "['ascii']")):
        ch = attr_chain(m.func.value)
        if ch and len(ch) == 3:
            return f"(.{'arrayStr' if arr else 'seriesStr'} {string(ch[1])} {string(ch[2])})"
    return f"(.opaque {string(src_of(n))})"


def is_new(n, suffixes):
    return (isinstance(n, ast.Call) and is_name(n.func) and not n.args and not n.keywords
            and any(n.func.id.endswith(s) for s in suffixes))


class Fn:
    """everything extracted from one convert* function"""

    def __init__(self, cname, fn):
        self.cname = cname
        self.fn = fn
        args = fn.args.args
        assert args[0].arg == "cls", f"{cname}.{fn.name}: not a classmethod"
        self.param = args[1].arg
        defaults = dict(zip([a.arg for a in args[len(args) - len(fn.args.defaults):]], fn.args.defaults))
        self.int_defaults = {k: v.value for k, v in defaults.items()
                             if isinstance(v, ast.Constant) and isinstance(v.value, int) and not isinstance(v.value, bool)}
        self.params = [a.arg for a in args[1:]]
        self.loop_var = None
        self.casts = []
        self.metas = []          # (var, attr, expr)
        self.shift = []          # (var, param)
        self.unparsed = []
        self.events = []         # (where, kind, ...) in source order: new_map/new_set/new_list/set_maps/append_maps/append/ret
        body = list(fn.body)
        if body and isinstance(body[0], ast.Expr) and isinstance(body[0].value, ast.Constant):
            body = body[1:]
        where = "pre"
        KNOWN.clear()
        KNOWN.add(self.param)
        for st in body:
            if isinstance(st, ast.For) and is_name(st.iter, self.param) and is_name(st.target):
                KNOWN.add(st.target.id)
        for st in body:
            if isinstance(st, ast.For) and is_name(st.iter, self.param) and is_name(st.target) and not st.orelse \
                    and self.loop_var is None:
                self.loop_var = st.target.id
                for s in st.body:
                    self.stmt(s, "body")
                where = "post"
            else:
                self.stmt(st, where)

    def stmt(self, st, where):
        # docstrings / comments
        if isinstance(st, ast.Expr) and isinstance(st.value, ast.Constant):
            return
        # `if raise_bad_mode and not x: raise ValueError(...)`
        if isinstance(st, ast.If) and len(st.body) == 1 and isinstance(st.body[0], ast.Raise) and not st.orelse:
            return
        if isinstance(st, ast.AnnAssign) and is_name(st.target) and isinstance(st.value, ast.List) and not st.value.elts:
            self.events.append((where, "new_list", st.target.id))
            return
        if isinstance(st, ast.Assign) and len(st.targets) == 1:
            t, v = st.targets[0], st.value
            if is_name(t):
                if isinstance(v, ast.List) and not v.elts:
                    self.events.append((where, "new_list", t.id))
                    return
                if is_new(v, ["MapSet"]):
                    self.events.append((where, "new_set", t.id, v.func.id))
                    return
                if is_new(v, ["Map"]):
                    self.events.append((where, "new_map", t.id, v.func.id))
                    return
            if isinstance(t, ast.Attribute) and is_name(t.value):
                var, attr = t.value.id, t.attr
                # cast
                if (isinstance(v, ast.Call) and isinstance(v.func, ast.Attribute) and v.func.attr == "cast"
                        and is_name(v.func.value, "cls") and len(v.args) == 3 and not v.keywords):
                    s, c, d = v.args
                    ch = attr_chain(s)
                    if ch and len(ch) == 2 and is_name(c) and isinstance(d, ast.Call) and is_name(d.func, "dict") \
                            and not d.args and all(k.arg for k in d.keywords):
                        mapping = [(k.arg, map_from(k.value)) for k in d.keywords]
                        self.casts.append((where, var, attr, ch[0], ch[1], c.id, mapping))
                        return
                    self.unparsed.append(src_of(st))
                    return
                if attr == "maps" and isinstance(v, ast.List) and all(is_name(e) for e in v.elts):
                    self.events.append((where, "set_maps", var, [e.id for e in v.elts]))
                    return
                self.metas.append((where, var, attr, meta_expr(v)))
                return
        if isinstance(st, ast.AugAssign) and isinstance(st.op, ast.Add) and is_name(st.value):
            t = st.target
            if (isinstance(t, ast.Attribute) and t.attr == "column" and isinstance(t.value, ast.Call)
                    and isinstance(t.value.func, ast.Attribute) and t.value.func.attr == "stack"
                    and is_name(t.value.func.value) and not t.value.args and not t.value.keywords):
                self.shift.append((where, t.value.func.value.id, st.value.id))
                return
        if isinstance(st, ast.Expr) and isinstance(st.value, ast.Call) and isinstance(st.value.func, ast.Attribute) \
                and st.value.func.attr == "append" and len(st.value.args) == 1 and is_name(st.value.args[0]):
            f = st.value.func.value
            if is_name(f):
                self.events.append((where, "append", f.id, st.value.args[0].id))
                return
            ch = attr_chain(f)
            if ch and len(ch) == 2 and ch[1] == "maps":
                self.events.append((where, "append_maps", ch[0], st.value.args[0].id))
                return
        if isinstance(st, ast.Return) and is_name(st.value):
            self.events.append((where, "ret", st.value.id))
            return
        self.unparsed.append(src_of(st))

    # ---- classification
    def classify(self):
        ev = self.events
        new_maps = [e for e in ev if e[1] == "new_map"]
        new_sets = [e for e in ev if e[1] == "new_set"]
        rets = [e for e in ev if e[1] == "ret"]
        if not new_maps or len({e[2] for e in new_maps}) != 1 or len(rets) != 1:
            return None, None, None, f"(.unknown {string('no single target map / return')})"
        mvar = new_maps[0][2]
        mcls = new_maps[0][3]
        svar = new_sets[0][2] if new_sets else None
        if len({e[2] for e in new_sets}) > 1:
            return mvar, svar, mcls, f"(.unknown {string('several set variables')})"
        ret = rets[0][2]
        set_maps = [e for e in ev if e[1] == "set_maps"]
        app_maps = [e for e in ev if e[1] == "append_maps"]
        apps = [e for e in ev if e[1] == "append"]
        lists = [e[2] for e in ev if e[1] == "new_list"]

        def unknown(why):
            return mvar, svar, mcls, f"(.unknown {string(why)})"

        if self.loop_var is None:
            if svar is None:
                if ret == mvar and len(new_maps) == 1 and not apps:
                    return mvar, svar, mcls, ".single"
                return unknown("no loop, no set, does not return the map")
            if ret == svar and len(set_maps) == 1 and set_maps[0][2] == svar and set_maps[0][3] == [mvar] \
                    and not app_maps and len(new_maps) == 1 and len(new_sets) == 1:
                return mvar, svar, mcls, ".singleSet"
            return unknown("no loop, set not assembled as s.maps = [m]")
        # with a loop
        map_in_body = any(e[0] == "body" for e in new_maps)
        map_outside = any(e[0] != "body" for e in new_maps)
        if map_outside and not map_in_body:
            return mvar, svar, mcls, ".mapOutsideLoop"
        if map_outside:
            return unknown("map created both inside and outside the loop")
        if svar is None:
            if (len(apps) == 1 and apps[0][0] == "body" and apps[0][2] in lists and apps[0][3] == mvar
                    and ret == apps[0][2] and rets[0][0] == "post"):
                return mvar, svar, mcls, ".listOfMaps"
            return unknown("loop without set: result not assembled by out.append(map)")
        set_in_body = any(e[0] == "body" for e in new_sets)
        if app_maps:
            if len(app_maps) == 1 and app_maps[0][0] == "body" and app_maps[0][2] == svar and app_maps[0][3] == mvar \
                    and ret == svar and not set_maps and not apps and rets[0][0] == "post":
                return mvar, svar, mcls, (".mergedSetInLoop" if set_in_body else ".mergedSet")
            return unknown("maps.append not of the merged form")
        if (set_in_body and len(new_sets) == 1 and len(set_maps) == 1 and set_maps[0][0] == "body"
                and set_maps[0][2] == svar and set_maps[0][3] == [mvar]
                and len(apps) == 1 and apps[0][0] == "body" and apps[0][2] in lists and apps[0][3] == svar
                and ret == apps[0][2] and rets[0][0] == "post"):
            return mvar, svar, mcls, ".listOfSets"
        return unknown("unrecognised loop assembly")

    def lean(self):
        mvar, svar, mcls, shape = self.classify()
        m = re.match(r"^(BMS|O2J|Osu|Qua|SM)To(BMS|O2J|Osu|Qua|SM)$", self.cname)
        sg, tg = GAMES[m.group(1)], GAMES[m.group(2)]
        unparsed = list(self.unparsed)
        casts = []
        for (where, var, attr, sv, sa, c, mapping) in self.casts:
            if var != mvar:
                unparsed.append(f"cast into {var}.{attr} (not the target map)")
                continue
            mp = lst([f"({string(k)}, {v})" for k, v in mapping])
            casts.append(f"⟨{string(var)}, {string(attr)}, {string(sv)}, {string(sa)}, {string(c)}, {mp}⟩")
        metas = []
        for (where, var, attr, e) in self.metas:
            if var == mvar:
                lvl = "map"
            elif var == svar:
                lvl = "set"
            else:
                unparsed.append(f"{var}.{attr} = … (unknown object)")
                continue
            metas.append(f"⟨{string(lvl)}, {string(attr)}, {e}⟩")
        shift_p = None
        shift_d = None
        if len(self.shift) == 1 and self.shift[0][1] == mvar and self.shift[0][2] in self.params:
            shift_p = self.shift[0][2]
            shift_d = self.int_defaults.get(shift_p)
        elif self.shift:
            unparsed.append("unrecognised column shift: " + repr(self.shift))
        return (f"  {{ name := {string(self.cname + '.' + self.fn.name)}, srcGame := {string(sg)}, tgtGame := {string(tg)},\n"
                f"    param := {string(self.param)}, loopVar := {opt(self.loop_var, string)}, tgtMapClass := {string(mcls or '?')},\n"
                f"    shape := {shape},\n"
                f"    casts := [\n      " + ",\n      ".join(casts) + "],\n"
                f"    shiftParam := {opt(shift_p, string)}, shiftDefault := {opt(shift_d, lambda i: f'({i} : Int)')},\n"
                f"    metas := [\n      " + ",\n      ".join(metas) + "],\n"
                f"    unparsed := {lst([string(u) for u in unparsed])} }}"), (mcls, [c[5] for c in self.casts])


def parse_converters(repo):
    d = os.path.join(repo, "reamber", "algorithms", "convert")
    fns = []
    for fn in sorted(os.listdir(d)):
        if not fn.endswith(".py") or fn in ("__init__.py", "ConvertBase.py"):
            continue
        tree = ast.parse(open(os.path.join(d, fn), encoding="utf-8").read())
        for node in tree.body:
            if isinstance(node, ast.ClassDef):
                for it in node.body:
                    if isinstance(it, ast.FunctionDef) and it.name.startswith("convert"):
                        fns.append(Fn(node.name, it))
    return fns


# ------------------------------------------------------------------------------------------ classes

LIST_MODULES = {
    "Osu": "reamber.osu.lists", "Qua": "reamber.quaver.lists", "SM": "reamber.sm.lists",
    "BMS": "reamber.bms.lists", "O2J": "reamber.o2jam.lists",
}
MAP_CLASSES = {
    "OsuMap": ("reamber.osu.OsuMap", "osu"), "QuaMap": ("reamber.quaver.QuaMap", "qua"),
    "SMMap": ("reamber.sm.SMMap", "sm"), "BMSMap": ("reamber.bms.BMSMap", "bms"),
    "O2JMap": ("reamber.o2jam.O2JMap", "o2j"),
}


def map_class(name):
    mod, game = MAP_CLASSES[name]
    cls = getattr(importlib.import_module(mod), name)
    return cls, game


def generate(repo):
    fns = parse_converters(repo)
    convs = []
    for f in fns:
        text, _ = f.lean()
        convs.append(text)
    # map classes: objs in order
    mapcls = []
    listcls = {}
    for name in sorted(MAP_CLASSES):
        cls, game = map_class(name)
        objs = cls().objs
        mapcls.append(f"  ⟨{string(name)}, {string(game)}, "
                      + lst([f"({string(k)}, {string(type(v).__name__)})" for k, v in objs.items()]) + "⟩")
        for v in objs.values():
            listcls[type(v).__name__] = type(v)
    lcs = []
    for name in sorted(listcls):
        props = listcls[name]._item_class()._props
        ps = lst([f"({string(k)}, {string(str(v[0]))}, {dflt(v[1])})" for k, v in props.items()])
        lcs.append(f"  ⟨{string(name)}, {ps}⟩")
    txt = ("/- GENERATED by harness/translators/converters.py from reamber/algorithms/convert/*.py, the list classes'\n"
           "   `_props` and the map classes' `objs` — do not edit. -/\n"
           "import Reamber.Model.ConvertTable\n\n"
           "namespace Reamber.Generated\nopen Reamber.Convert\n\n"
           "/-- every list class held by a map class: declared columns (name, dtype, default) in order -/\n"
           "def listClasses : List ListClass := [\n" + ",\n".join(lcs) + "]\n\n"
           "/-- the map classes: game, `objs` attribute ↦ list class, in order -/\n"
           "def mapClasses : List MapClass := [\n" + ",\n".join(mapcls) + "]\n\n"
           "/-- one entry per `convert*` classmethod under reamber/algorithms/convert/ -/\n"
           "def converters : List Conv := [\n" + ",\n".join(convs) + "]\n\n"
           "end Reamber.Generated\n")
    return {"Converters.lean": txt}
