#!/venv/bin/python
"""Cross matrix: every seeded change in /verif/seeded/* against every claimed check (correspondence + spec part only,
`--no-build`, so runs can go in parallel without touching lean/ or evidence/). Writes seeded/MATRIX.json.

  matrix.py [--jobs 6] [--only C10-A,C11-B] [--checks C10,C15]
"""
import argparse
import concurrent.futures as cf
import glob
import json
import os
import shutil
import subprocess
import tempfile
import time

VERIF = os.path.dirname(os.path.dirname(os.path.dirname(os.path.abspath(__file__))))
PY = "/venv/bin/python"
ap = argparse.ArgumentParser()
ap.add_argument("--jobs", type=int, default=6)
ap.add_argument("--only", default=None)
ap.add_argument("--checks", default=None)
a = ap.parse_args()
man = json.load(open(os.path.join(VERIF, "MANIFEST.json")))
checks = a.checks.split(",") if a.checks else [c["property_id"] for c in man["checks"]]
seeds = sorted(os.path.basename(d) for d in glob.glob(os.path.join(VERIF, "seeded", "*")) if os.path.isdir(d))
if a.only:
    seeds = [s for s in seeds if s in a.only.split(",")]


def one(seed):
    tmp = tempfile.mkdtemp(prefix="mx-", dir="/tmp")
    repo = os.path.join(tmp, "repo")
    out = {}
    try:
        subprocess.check_call(["rsync", "-a", "--exclude", ".git", "/repo/", repo + "/"])
        r = subprocess.run(["patch", "-p1", "-s", "-d", repo, "-i", os.path.join(VERIF, "seeded", seed, "patch.diff")],
                           stdout=subprocess.PIPE, stderr=subprocess.STDOUT, text=True)
        if r.returncode != 0:
            return seed, {"_error": "patch does not apply"}
        env = dict(os.environ, PYTHONPATH=repo, REAMBER_REPO=repo, VERIF_EVIDENCE_DIR=os.path.join(tmp, "ev"),
                   VERIF_REPLAY_DIR=os.path.join(tmp, "rp"), VERIF_JOBS="2")
        for c in checks:
            t = time.time()
            r = subprocess.run([PY, os.path.join(VERIF, "harness", "vcheck.py"), c, "--tier", "quick", "--no-build"], cwd=VERIF,
                               env=env, stdout=subprocess.PIPE, stderr=subprocess.STDOUT, text=True)
            vl = [l for l in r.stdout.split("\n") if l.startswith("VIOLATION")]
            out[c] = dict(exit=r.returncode, violations=len(vl), weak=bool(vl) and all("no-failing-input-found" in l for l in vl),
                          wall_s=round(time.time() - t, 1))
        return seed, out
    finally:
        shutil.rmtree(tmp, ignore_errors=True)


res = {}
with cf.ThreadPoolExecutor(a.jobs) as ex:
    for seed, out in ex.map(one, seeds):
        res[seed] = out
        hit = [c for c, r in out.items() if isinstance(r, dict) and r.get("exit") == 1]
        print(seed, "caught by", hit, flush=True)
mp = os.path.join(VERIF, "seeded", "MATRIX.json")
old = json.load(open(mp)) if os.path.exists(mp) else {}
old.update(res)
json.dump(old, open(mp, "w"), indent=1, sort_keys=True)
