#!/usr/bin/env python3
"""Regenerates the machine-written part of DESIGN.md (between the STATUS markers): per-property obligations,
claim state, findings ledger, and which check catches which seeded change (from seeded/*/meta.json).
Run at edit time only."""
import glob
import json
import os
import re

VERIF = os.path.dirname(os.path.dirname(os.path.dirname(os.path.abspath(__file__))))
props = [json.loads(l) for l in open(os.path.join(VERIF, "properties.jsonl")) if l.strip()]
man = json.load(open(os.path.join(VERIF, "MANIFEST.json")))
claimed = {c["property_id"]: c for c in man["checks"]}
na = {e["property_id"]: e["reason"] for e in man.get("not_applicable", [])}
kf = json.load(open(os.path.join(VERIF, "known_findings.json")))["findings"]

out = []
out.append("### 13.1 Per property: obligations, claim, mutants\n")
out.append("| prop | claimed | theorems audited (`lean/Audit/Cnn.lean`) | mutant patches (`harness/mutants/Cnn/`) | open findings narrowing the claim |")
out.append("|---|---|---|---|---|")
for p in props:
    i = p["id"]
    a = os.path.join(VERIF, "lean", "Audit", f"{i}.lean")
    n = len(re.findall(r"^#print axioms", open(a).read(), flags=re.M)) if os.path.exists(a) else 0
    mut = len(glob.glob(os.path.join(VERIF, "harness", "mutants", i, "*.patch")))
    opens = sorted(e["id"] for e in kf if e["status"] == "open" and i in e["properties"])
    out.append(f"| {i} | {'yes' if i in claimed else 'no'} | {n} | {mut} | {', '.join(opens) or '—'} |")
out.append("")
out.append("### 13.2 Findings ledger (from `known_findings.json`)\n")
out.append("| id | status | properties | commit | what |")
out.append("|---|---|---|---|---|")
for e in sorted(kf, key=lambda e: e["id"]):
    what = e.get("what", "").replace("|", "\\|").replace("\n", " ")
    if len(what) > 230:
        what = what[:227] + "..."
    out.append(f"| {e['id']} | {e['status']} | {', '.join(e['properties'])} | {e.get('commit', '') or ''} | {what} |")
out.append("")
out.append("### 13.3 Independently seeded changes and the checks that catch them (from `seeded/*/meta.json`)\n")
out.append("| seeded change | breaks | suite on the change | demo unchanged / changed | first run | check verdict now | what it needs to manifest (first lines of notes) |")
out.append("|---|---|---|---|---|---|---|")
for d in sorted(glob.glob(os.path.join(VERIF, "seeded", "*"))):
    mp = os.path.join(d, "meta.json")
    if not os.path.exists(mp):
        continue
    m = json.load(open(mp))
    checks = []
    for c, r in (m.get("checks") or {}).items():
        vl = r.get("violation_lines") or []
        if r.get("exit") == 1:
            weak = all("no-failing-input-found" in l for l in vl) if vl else False
            checks.append(f"{c}: VIOLATION" + (" (no-failing-input-found)" if weak else f" ({len(vl)} replay{'s' if len(vl) != 1 else ''})"))
        else:
            checks.append(f"{c}: exit {r.get('exit')} (missed)")
    def verdict(chk):
        outv = []
        for c, r in (chk or {}).items():
            vl = r.get("violation_lines") or []
            if r.get("exit") == 1:
                weak = bool(vl) and all("no-failing-input-found" in l for l in vl)
                outv.append("weak" if weak else "caught")
            else:
                outv.append("missed")
        return "/".join(outv) or "?"
    hist = [h for h in (m.get("history") or []) if h and h.get("checks")]
    first = verdict(hist[0]["checks"]) if hist else verdict(m.get("checks"))
    needs = (m.get("needs") or "").strip().split("\n")
    needs = " ".join(l.strip("#* ") for l in needs[:3])[:260].replace("|", "\\|")
    suite = (m.get("suite") or {}).get("summary", "not run")
    suite = re.sub(r", \d+ warnings.*", "", suite)
    demo = m.get("demo") or {}
    out.append(f"| {m['id']} | {m.get('property')} | {suite} | {demo.get('unchanged_exit')} / {demo.get('changed_exit')} | {first} | {'; '.join(checks)}{' — superseded, see meta.json' if m.get('superseded') else ''} | {needs} |")
import collections
cnt = collections.Counter()
for d in sorted(glob.glob(os.path.join(VERIF, "seeded", "*"))):
    mp = os.path.join(d, "meta.json")
    if not os.path.exists(mp):
        continue
    m = json.load(open(mp))
    rnd = m.get("round") or {"A": 1, "B": 1, "C": 2, "D": 2, "E": 3, "F": 3, "G": 4, "H": 4}.get(m["id"].split("-")[-1], 0)
    def v(chk):
        r = (chk or {}).get(m.get("property"), {})
        vl = r.get("violation_lines") or []
        return "missed" if r.get("exit") != 1 else ("weak" if vl and all("no-failing-input-found" in l for l in vl) else "caught")
    hist = [h for h in (m.get("history") or []) if h and h.get("checks")]
    cnt[(rnd, "first", v(hist[0]["checks"]) if hist else v(m.get("checks")))] += 1
    cnt[(rnd, "now", v(m.get("checks")))] += 1
out.append("")
out.append("Summary (own property's check; `weak` = reported only as `no-failing-input-found`):")
out.append("")
out.append("| round | changes | first run: caught / weak / missed | now: caught / weak / missed |")
out.append("|---|---|---|---|")
for rnd in (1, 2, 3, 4, 5, 6, 7):
    n = sum(cnt[(rnd, "now", k)] for k in ("caught", "weak", "missed"))
    out.append(f"| {rnd} | {n} | {cnt[(rnd,'first','caught')]} / {cnt[(rnd,'first','weak')]} / {cnt[(rnd,'first','missed')]} | {cnt[(rnd,'now','caught')]} / {cnt[(rnd,'now','weak')]} / {cnt[(rnd,'now','missed')]} |")
mxp = os.path.join(VERIF, "seeded", "MATRIX.json")
if os.path.exists(mxp):
    mx = json.load(open(mxp))
    out.append("")
    out.append("### 13.3b Cross matrix: every seeded change against every check (`harness/tools/matrix.py`, quick tier, correspondence + specification part; from `seeded/MATRIX.json`)\n")
    out.append("A change seeded for one property often breaks others too (a regression in a shared helper is a regression of every property that rests on it); a check that stays quiet is not a miss unless the change breaks *its* property. `w` = reported only as `no-failing-input-found`.\n")
    out.append("| seeded change | own check | other checks that report it |")
    out.append("|---|---|---|")
    tot = collections.Counter()
    for sid in sorted(mx):
        row = mx[sid]
        if "_error" in row:
            out.append(f"| {sid} | — | ({row['_error']}) |")
            continue
        own = sid.split("-")[0]
        def mark(c):
            r = row.get(c, {})
            return "" if r.get("exit") != 1 else ("w" if r.get("weak") else "x")
        others = [f"{c}{'(w)' if mark(c) == 'w' else ''}" for c in sorted(row) if c != own and mark(c)]
        for c in sorted(row):
            if mark(c):
                tot[c] += 1
        o = mark(own)
        out.append(f"| {sid} | {'caught' if o == 'x' else ('weak' if o == 'w' else 'quiet')} | {', '.join(others) or '—'} |")
    out.append("")
    out.append("Seeded changes reported per check (own and foreign): " + ", ".join(f"{c} {n}" for c, n in sorted(tot.items())) + ".")
text = "\n".join(out) + "\n"

dp = os.path.join(VERIF, "DESIGN.md")
s = open(dp, encoding="utf-8").read()
B, E = "<!-- STATUS:BEGIN (generated by harness/tools/status.py) -->", "<!-- STATUS:END -->"
if B in s and E in s:
    s = s[: s.index(B) + len(B)] + "\n" + text + s[s.index(E):]
    open(dp, "w", encoding="utf-8").write(s)
    print("DESIGN.md status block rewritten")
else:
    print(text)
