#!/usr/bin/env python3
"""List fully-qualified Lean declaration names declared in more than one file of lean/Reamber (merge hygiene)."""
import os, re, sys, collections
root = os.path.join(os.path.dirname(os.path.dirname(os.path.dirname(os.path.abspath(__file__)))), "lean", "Reamber")
decl = re.compile(r"^\s*(?:@\[[^\]]*\]\s*)*(?:private\s+|protected\s+|noncomputable\s+)*(theorem|lemma|def|abbrev|structure|inductive|class)\s+([^\s:({\[]+)")
names = collections.defaultdict(list)
for dp, _, fns in os.walk(root):
    for fn in fns:
        if not fn.endswith(".lean"): continue
        p = os.path.join(dp, fn); ns = []
        for line in open(p, encoding="utf-8"):
            m = re.match(r"^namespace\s+(\S+)", line)
            if m: ns.append(m.group(1)); continue
            m = re.match(r"^end\s+(\S+)", line)
            if m and ns and ns[-1] == m.group(1): ns.pop(); continue
            if "private" in line.split("theorem")[0].split("def")[0]: continue
            m = decl.match(line)
            if m: names[".".join(ns + [m.group(2)])].append(os.path.relpath(p, root))
dups = {k: v for k, v in names.items() if len(set(v)) > 1}
for k, v in sorted(dups.items()): print(k, sorted(set(v)))
sys.exit(1 if dups else 0)
