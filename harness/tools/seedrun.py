#!/venv/bin/python
"""Confirm a seeded change and run checks against it.

  seedrun.py <dir with patch.diff, demo.py> --id C10-1 --prop C10 [--checks C10,C11] [--tier quick] [--keep]

1. copies /repo to a scratch dir under /tmp, applies patch.diff there;
2. runs the repo's suite on the scratch copy (must match the baseline: only the 2 known failures);
3. runs demo.py against /repo (must exit 0) and against the scratch copy (must exit != 0);
4. runs the listed checks against the scratch copy (REAMBER_REPO), records verdict + VIOLATION lines;
5. writes /verif/seeded/<id>/{patch.diff, demo.py, notes.md, meta.json}; removes the scratch copy.
"""
import argparse
import glob
import json
import os
import re
import shutil
import subprocess
import sys
import tempfile
import time

VERIF = os.path.dirname(os.path.dirname(os.path.dirname(os.path.abspath(__file__))))
PY = "/venv/bin/python"

ap = argparse.ArgumentParser()
ap.add_argument("src")
ap.add_argument("--id", required=True)
ap.add_argument("--prop", required=True)
ap.add_argument("--checks", default=None)
ap.add_argument("--tier", default="quick")
ap.add_argument("--skip-suite", action="store_true")
ap.add_argument("--seed", default="0")
a = ap.parse_args()
checks = (a.checks or a.prop).split(",")
a.src = os.path.abspath(a.src)

tmp = tempfile.mkdtemp(prefix="seed-", dir="/tmp")
repo = os.path.join(tmp, "repo")
meta = dict(id=a.id, property=a.prop, at=time.strftime("%Y-%m-%dT%H:%M:%SZ", time.gmtime()), ran=[])
try:
    subprocess.check_call(["rsync", "-a", "--exclude", ".git", "/repo/", repo + "/"])
    patch = os.path.join(a.src, "patch.diff")
    r = subprocess.run(["patch", "-p1", "-s", "-d", repo, "-i", os.path.abspath(patch)], stdout=subprocess.PIPE, stderr=subprocess.STDOUT, text=True)
    meta["patch_applies"] = r.returncode == 0
    if r.returncode != 0:
        print("PATCH DOES NOT APPLY\n", r.stdout)
        sys.exit(3)
    env = dict(os.environ, PYTHONPATH=repo, REAMBER_REPO=repo)
    if not a.skip_suite:
        r = subprocess.run([PY, "-m", "pytest", "-q", "-p", "no:cacheprovider", "-n", "8", "--dist", "loadfile"], cwd=repo,
                           env=env, stdout=subprocess.PIPE, stderr=subprocess.STDOUT, text=True)
        last = r.stdout.strip().split("\n")[-1]
        failed = sorted(set(re.findall(r"^FAILED (\S+)", r.stdout, flags=re.M)))
        unexpected = [f for f in failed if "test_parse_replays_error_osr" not in f]
        meta["suite"] = dict(summary=last, unexpected_failures=unexpected)
        meta["ran"].append("pytest -q -n 8 --dist loadfile (scratch copy with the change)")
        print("SUITE:", last, "unexpected:", unexpected)
    demo = os.path.join(a.src, "demo.py")
    if os.path.exists(demo):
        r0 = subprocess.run([PY, demo, "/repo"], cwd="/tmp", env=dict(os.environ, PYTHONPATH="/repo", REAMBER_REPO="/repo"),
                            stdout=subprocess.PIPE, stderr=subprocess.STDOUT, text=True)
        r1 = subprocess.run([PY, demo, repo], cwd="/tmp", env=env, stdout=subprocess.PIPE, stderr=subprocess.STDOUT, text=True)
        meta["demo"] = dict(unchanged_exit=r0.returncode, changed_exit=r1.returncode, changed_tail=r1.stdout.strip()[-400:])
        meta["ran"].append("demo.py /repo (unchanged) ; demo.py <scratch copy> (changed)")
        print("DEMO: unchanged exit", r0.returncode, "| changed exit", r1.returncode)
        if r0.returncode != 0:
            print(r0.stdout[-600:])
    meta["checks"] = {}
    for c in checks:
        before = set(glob.glob(os.path.join(VERIF, "replays", "*.json")))
        ev = os.path.join(VERIF, "evidence", f"{c}.json")
        saved = open(ev).read() if os.path.exists(ev) else None
        t = time.time()
        r = subprocess.run([PY, os.path.join(VERIF, "harness", "vcheck.py"), c, "--tier", a.tier], cwd=VERIF,
                           env=dict(env, VERIF_SEED=a.seed), stdout=subprocess.PIPE, stderr=subprocess.STDOUT, text=True)
        if saved is not None:
            open(ev, "w").write(saved)
        vl = [l for l in r.stdout.split("\n") if l.startswith("VIOLATION")]
        new = sorted(set(glob.glob(os.path.join(VERIF, "replays", "*.json"))) - before)
        rep = []
        for f in new:
            d = json.load(open(f))
            rep.append(dict(kind=d.get("kind"), names=d.get("names"), case=json.dumps(d.get("case"))[:600]))
            os.remove(f)
        meta["checks"][c] = dict(exit=r.returncode, violation_lines=vl, wall_s=round(time.time() - t, 1), replays=rep)
        meta["ran"].append(f"REAMBER_REPO=<scratch copy> harness/vcheck.py {c} --tier {a.tier} (VERIF_SEED={a.seed})")
        print(f"CHECK {c}: exit {r.returncode}", vl)
        if r.returncode == 2:
            print(r.stdout[-1500:])
    out = os.path.join(VERIF, "seeded", a.id)
    os.makedirs(out, exist_ok=True)
    for fn in ("patch.diff", "demo.py", "notes.md"):
        p = os.path.join(a.src, fn)
        if os.path.exists(p) and os.path.abspath(p) != os.path.abspath(os.path.join(out, fn)):
            shutil.copy(p, os.path.join(out, fn))
    notes = os.path.join(a.src, "notes.md")
    if os.path.exists(notes):
        meta["needs"] = open(notes, encoding="utf-8").read().strip()[:3000]
    meta["breaks"] = a.prop
    old = os.path.join(out, "meta.json")
    if os.path.exists(old):
        try:
            prev = json.load(open(old))
            meta["needs"] = meta.get("needs") or prev.get("needs")
            for k in ("round", "superseded", "note"):
                if k in prev and k not in meta:
                    meta[k] = prev[k]
            if "suite" not in meta and prev.get("suite"):
                meta["suite"] = dict(prev["suite"], note="from the first confirmation run of this seeded change")
            meta.setdefault("history", prev.get("history", []))
            meta["history"].append({k: prev.get(k) for k in ("at", "checks")})
        except Exception:
            pass
    json.dump(meta, open(old, "w"), indent=1)
finally:
    shutil.rmtree(tmp, ignore_errors=True)
    # the check above regenerated lean/Reamber/Generated/* from the scratch copy: put the tables of /repo back
    subprocess.run(["/venv/bin/python", os.path.join(VERIF, "harness", "extract_tables.py")], env=dict(os.environ, REAMBER_REPO="/repo"),
                   stdout=subprocess.DEVNULL, stderr=subprocess.DEVNULL)
