#!/venv/bin/python
"""Mutation helper (DESIGN §9): apply an edit to a scratch copy of the repo (outside /repo and /verif),
run a check against it with REAMBER_REPO, print the verdict, remove the copy.

  mut.py C10 --sed 's/a/b/' reamber/x.py [--n 1500] [--tier quick] [--keep]
  mut.py C10 --patch harness/mutants/foo.patch
"""
import argparse
import glob
import json
import os
import shutil
import subprocess
import sys
import tempfile

VERIF = os.path.dirname(os.path.dirname(os.path.dirname(os.path.abspath(__file__))))

ap = argparse.ArgumentParser()
ap.add_argument("prop")
ap.add_argument("--sed", nargs=2, action="append", default=[])
ap.add_argument("--patch", action="append", default=[])
ap.add_argument("--n", default=None)
ap.add_argument("--tier", default="quick")
ap.add_argument("--build", action="store_true", help="run translate/build/audit too (slower)")
ap.add_argument("--show", action="store_true")
ap.add_argument("--suite", action="store_true", help="also run the repo's test suite on the mutant")
a = ap.parse_args()

tmp = tempfile.mkdtemp(prefix="mut-", dir="/tmp")
repo = os.path.join(tmp, "repo")
try:
    subprocess.check_call(["rsync", "-a", "--exclude", ".git", "/repo/", repo + "/"])
    for expr, f in a.sed:
        before = open(os.path.join(repo, f)).read()
        subprocess.check_call(["sed", "-i", "-E", expr, os.path.join(repo, f)])
        if open(os.path.join(repo, f)).read() == before:
            print("MUTATION DID NOT CHANGE THE FILE", f)
            sys.exit(3)
    for p in a.patch:
        subprocess.check_call(["patch", "-p1", "-s", "-d", repo, "-i", os.path.abspath(p)])
    if a.suite:
        r = subprocess.run(["/venv/bin/python", "-m", "pytest", "-q", "-p", "no:cacheprovider", "-n", "8", "--dist", "loadfile",
                            "--deselect", "tests/algorithm_tests/osu/replay/test_parse_replay.py::test_parse_replays_error_osr"], cwd=repo, stdout=subprocess.PIPE,
                           stderr=subprocess.STDOUT, text=True, env=dict(os.environ, PYTHONPATH=repo))
        print("SUITE:", r.stdout.strip().split("\n")[-1])
    before = set(glob.glob(os.path.join(VERIF, "replays", "*.json")))
    cmd = ["/venv/bin/python", os.path.join(VERIF, "harness", "vcheck.py"), a.prop, "--tier", a.tier]
    if not a.build:
        cmd.append("--no-build")
    if a.n:
        cmd += ["--n", a.n]
    env = dict(os.environ, REAMBER_REPO=repo)
    # evidence of a mutant run must not overwrite the real evidence
    ev = os.path.join(VERIF, "evidence", f"{a.prop.upper()}.json")
    saved = open(ev).read() if os.path.exists(ev) else None
    r = subprocess.run(cmd, cwd=VERIF, env=env, stdout=subprocess.PIPE, stderr=subprocess.STDOUT, text=True)
    if saved is not None:
        open(ev, "w").write(saved)
    print("\n".join(l for l in r.stdout.split("\n") if not l.startswith("KNOWN-FINDING") and "conda" not in l))
    print("exit", r.returncode)
    new = set(glob.glob(os.path.join(VERIF, "replays", "*.json"))) - before
    for f in sorted(new):
        if a.show:
            d = json.load(open(f))
            print(json.dumps(d["case"])[:1500])
            print(json.dumps(d["result"])[:1500])
        os.remove(f)
finally:
    shutil.rmtree(tmp, ignore_errors=True)
    # the check above regenerated lean/Reamber/Generated/* from the scratch copy: put the tables of /repo back
    subprocess.run(["/venv/bin/python", os.path.join(VERIF, "harness", "extract_tables.py")], env=dict(os.environ, REAMBER_REPO="/repo"),
                   stdout=subprocess.DEVNULL, stderr=subprocess.DEVNULL)
