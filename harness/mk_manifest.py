#!/venv/bin/python
"""Assembles /verif/MANIFEST.json from manifest.d/Cnn.json fragments (one per claimed property).
Properties without a fragment are listed under not_applicable with the reason in manifest.d/_unclaimed.json
(or a default)."""
import json
import os

VERIF = os.path.dirname(os.path.dirname(os.path.abspath(__file__)))
props = [json.loads(l) for l in open(os.path.join(VERIF, "properties.jsonl")) if l.strip()]
ids = [p["id"] for p in props]
frag_dir = os.path.join(VERIF, "manifest.d")
unclaimed_reasons = {}
p = os.path.join(frag_dir, "_unclaimed.json")
if os.path.exists(p):
    unclaimed_reasons = json.load(open(p))
checks, na = [], []
for i in ids:
    f = os.path.join(frag_dir, f"{i}.json")
    if os.path.exists(f) and i not in unclaimed_reasons:
        fr = json.load(open(f))
        chk = dict(
            property_id=i,
            quick_cmd=f"/venv/bin/python harness/vcheck.py {i} --tier quick",
            thorough_cmd=f"/venv/bin/python harness/vcheck.py {i} --tier thorough",
            evidence_file=f"/verif/evidence/{i}.json",
            replay_cmd_template=f"/venv/bin/python harness/vcheck.py {i} --replay {{path}}",
            engine="lean4-model+correspondence",
            level_claimed=dict(category="proof", text=fr["level_text"], design_ref=fr.get("design_ref", f"DESIGN.md §6 {i}")),
            level_note=fr["level_note"],
            technique=fr.get("technique", "Lean 4 theorems over an executable model + differential correspondence check against the Python code"),
        )
        checks.append(chk)
    else:
        na.append(dict(property_id=i, reason=unclaimed_reasons.get(i, "check not built yet in this round (Lean model and correspondence in progress); not decided by any other technique")))
man = dict(
    version=1,
    setup_cmd="cd lean && lake build",
    hooks=dict(guard="REAMBER_VERIF", enable="no hooks are needed: every observation point is a public API call (REAMBER_VERIF is unused)",
               baseline_off_cmd="cd /repo && /venv/bin/python -m pytest -ra -q -p no:cacheprovider --timeout=900 --continue-on-collection-errors",
               source_commits=[], add_only=True),
    engines=[dict(name="lean4-model+correspondence", path="lean/ (models, specs, theorems, driver) + harness/ (vcheck.py, translator, generators)",
                  serves_properties=[c["property_id"] for c in checks],
                  kind_free_text="Lean 4 machine-checked theorems about executable models of the code; models tied to /repo on every run by a translator (tables/constants) and a differential correspondence check (algorithms)")],
    checks=checks,
    notes="See DESIGN.md (§13 for what was built). Exit codes: 0 held / 1 VIOLATION line / 2 infrastructure. No hooks were added to the repository (every observation point is a public API call); the only source commits are the unguarded `fix:` commits listed with their findings in known_findings.json (`fixed` entries: commit, witness, reverse patch under harness/mutants/fixed/). Open findings print KNOWN-FINDING lines and do not fail a check; a different violation of the same property still does.",
    not_applicable=na,
)
json.dump(man, open(os.path.join(VERIF, "MANIFEST.json"), "w"), indent=1)
print(f"claimed {len(checks)}: {[c['property_id'] for c in checks]}; not_applicable {len(na)}")
