"""Persistent Lean driver subprocess: one JSON line in, one JSON line out."""
import json
import os
import subprocess

VERIF = os.path.dirname(os.path.dirname(os.path.dirname(os.path.abspath(__file__))))
LEAN_DIR = os.path.join(VERIF, "lean")
DRIVER_BIN = os.path.join(LEAN_DIR, ".lake", "build", "bin", "driver")


class DriverError(Exception):
    pass


class Driver:
    def __init__(self):
        if not os.path.exists(DRIVER_BIN):
            raise DriverError(f"driver binary missing: {DRIVER_BIN} (run setup_cmd)")
        self.p = subprocess.Popen([DRIVER_BIN], stdin=subprocess.PIPE, stdout=subprocess.PIPE,
                                  text=True, bufsize=1)
        self.calls = 0

    def call(self, op, **kw):
        kw["op"] = op
        self.p.stdin.write(json.dumps(kw, separators=(",", ":")) + "\n")
        self.p.stdin.flush()
        line = self.p.stdout.readline()
        if not line:
            raise DriverError(f"driver died on op {op}")
        self.calls += 1
        r = json.loads(line)
        if isinstance(r, dict) and "bad" in r:
            raise DriverError(f"driver rejected {op}: {r['bad']}")
        return r

    def close(self):
        try:
            self.p.stdin.close()
            self.p.wait(timeout=5)
        except Exception:
            self.p.kill()
