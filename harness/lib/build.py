"""Translate + build + audit (DESIGN §2 steps 1-2).

* runs the translator (harness/extract_tables.py) against REAMBER_REPO and rewrites
  lean/Reamber/Generated/*.lean when the source says something new;
* builds the driver and the property's theorem module with lake;
* greps the Lean sources for escape hatches and parses `#print axioms` for every obligation
  listed in lean/Audit/<id>.lean.
"""
import fcntl
import os
import re
import subprocess
import time

from .driver import LEAN_DIR, VERIF

ALLOWED_AXIOMS = {"propext", "Classical.choice", "Quot.sound"}
FORBIDDEN = re.compile(r"\bsorry\b|\badmit\b|^\s*axiom\s|native_decide|bv_decide|implemented_by|\bunsafe\s|maxHeartbeats\s+0\b")


def _strip_comments(text):
    # remove /- ... -/ (nested) and -- ... comments; good enough for a hygiene grep
    out = []
    i = 0
    depth = 0
    n = len(text)
    while i < n:
        if text.startswith("/-", i):
            depth += 1
            i += 2
        elif depth and text.startswith("-/", i):
            depth -= 1
            i += 2
        elif depth:
            if text[i] == "\n":
                out.append("\n")
            i += 1
        elif text.startswith("--", i):
            while i < n and text[i] != "\n":
                i += 1
        elif text[i] == '"':
            j = i + 1
            while j < n and text[j] != '"':
                j += 2 if text[j] == "\\" else 1
            out.append('""')
            i = j + 1
        else:
            out.append(text[i])
            i += 1
    return "".join(out)


def hygiene():
    """forbidden constructs outside comments / strings, over the whole Lean tree"""
    hits = []
    for root in ("Reamber", "Audit"):
        for dp, _, fns in os.walk(os.path.join(LEAN_DIR, root)):
            for fn in fns:
                if not fn.endswith(".lean"):
                    continue
                p = os.path.join(dp, fn)
                txt = _strip_comments(open(p, encoding="utf-8").read())
                for ln, line in enumerate(txt.split("\n"), 1):
                    if FORBIDDEN.search(line):
                        hits.append(f"{os.path.relpath(p, LEAN_DIR)}:{ln}: {line.strip()[:120]}")
    for fn in ("Main.lean",):
        p = os.path.join(LEAN_DIR, fn)
        if os.path.exists(p):
            txt = _strip_comments(open(p, encoding="utf-8").read())
            for ln, line in enumerate(txt.split("\n"), 1):
                if FORBIDDEN.search(line):
                    hits.append(f"{fn}:{ln}: {line.strip()[:120]}")
    return hits


def _run(cmd, timeout):
    t = time.time()
    p = subprocess.run(cmd, cwd=LEAN_DIR, stdout=subprocess.PIPE, stderr=subprocess.STDOUT, text=True,
                       timeout=timeout)
    return p.returncode, p.stdout, time.time() - t


def audit_obligations(prop_id):
    """names listed by `#print axioms` in Audit/<id>.lean"""
    p = os.path.join(LEAN_DIR, "Audit", f"{prop_id}.lean")
    if not os.path.exists(p):
        return []
    txt = _strip_comments(open(p, encoding="utf-8").read())
    return re.findall(r"#print axioms\s+(\S+)", txt)


def parse_axioms(out):
    """{theorem: set(axioms)} from `lean Audit/X.lean` output"""
    res = {}
    # output may wrap long axiom lists over several lines
    flat = re.sub(r"\n\s+", " ", out)
    for m in re.finditer(r"'([^']+)' depends on axioms: \[([^\]]*)\]", flat):
        res[m.group(1)] = {a.strip() for a in m.group(2).split(",") if a.strip()}
    for m in re.finditer(r"'([^']+)' does not depend on any axioms", flat):
        res[m.group(1)] = set()
    return res


def import_closure(prop_id):
    """stems of the Reamber/Generated files reachable through `import` from Props/<id>.lean and Drv/<id>.lean"""
    seen, todo, gen = set(), [f"Reamber.Props.{prop_id}", f"Reamber.Drv.{prop_id}"], set()
    while todo:
        m = todo.pop()
        if m in seen:
            continue
        seen.add(m)
        p = os.path.join(LEAN_DIR, *m.split(".")) + ".lean"
        if not os.path.exists(p):
            continue
        for imp in re.findall(r"^import\s+(Reamber\.\S+)", open(p, encoding="utf-8").read(), flags=re.M):
            if imp.startswith("Reamber.Generated."):
                gen.add(imp.split(".")[-1])
            todo.append(imp)
    return gen


def prepare(prop_id, tier, repo, log=print):
    """returns dict(build_ok, driver_ok, obligations, discharged, broken, generated_changed, checker_cmd, notes)"""
    info = dict(build_ok=False, driver_ok=False, obligations=[], discharged=[], broken=[],
                generated_changed=[], notes=[], axioms={}, leanchecker=None,
                checker_cmd=f"cd lean && lake build driver Reamber.Props.{prop_id} && lake env lean Audit/{prop_id}.lean  (# print axioms ⊆ propext, Classical.choice, Quot.sound; hygiene grep)")
    os.makedirs(os.path.join(LEAN_DIR, ".lake"), exist_ok=True)
    lock = open(os.path.join(LEAN_DIR, ".lake", "vcheck.lock"), "w")
    fcntl.flock(lock, fcntl.LOCK_EX)
    try:
        # 1. translator
        try:
            import extract_tables
            terr = {}
            changed = extract_tables.write_generated(repo, os.path.join(LEAN_DIR, "Reamber", "Generated"), terr)
            info["generated_changed"] = changed
            if changed:
                log(f"[build] Generated/* rewritten from {repo}: {changed}")
            # a translator that cannot read the source any more breaks the tie of exactly those properties whose
            # theorems / driver operations import the table it writes
            closure = import_closure(prop_id)
            for mod, (msg, files) in terr.items():
                hit = [f for f in files if f[:-5] in closure] if files else ["?"]
                if hit:
                    info["notes"].append(f"translator {mod} failed: {msg}")
                    info["broken"].append(f"translator:{mod}")
                    log(f"[build] translator {mod} failed (tables {files} are imported by {prop_id}): {msg}")
                else:
                    info["notes"].append(f"translator {mod} failed on this source but {prop_id} does not import {files}: {msg}")
        except Exception as e:  # translator framework itself could not run: the tie is broken
            info["notes"].append(f"translator failed: {type(e).__name__}: {e}")
            info["broken"].append("translator:extract_tables")
            log(f"[build] translator failed: {e!r}")
        # 2. driver
        rc, out, dt = _run(["lake", "build", "driver"], 1500)
        info["driver_ok"] = rc == 0
        if rc != 0:
            info["notes"].append("driver build failed:\n" + out[-3000:])
            log("[build] driver build FAILED\n" + out[-3000:])
        # 3. theorems
        obligations = audit_obligations(prop_id)
        info["obligations"] = obligations
        rc, out, dt2 = _run(["lake", "build", f"Reamber.Props.{prop_id}"], 2400)
        info["build_ok"] = rc == 0
        log(f"[build] driver {dt:.1f}s, Props.{prop_id} {dt2:.1f}s, rc={rc}")
        if rc != 0:
            info["notes"].append("theorem build failed:\n" + out[-4000:])
            log("[build] theorem build FAILED\n" + out[-4000:])
            info["broken"] += [f"theorem:{o}" for o in obligations] or [f"module:Reamber.Props.{prop_id}"]
            return info
        # 4. audit
        rc, out, dt3 = _run(["lake", "env", "lean", f"Audit/{prop_id}.lean"], 900)
        ax = parse_axioms(out)
        info["axioms"] = {k: sorted(v) for k, v in ax.items()}
        if rc != 0:
            info["notes"].append("audit failed:\n" + out[-3000:])
        for o in obligations:
            key = o if o in ax else next((k for k in ax if k.endswith("." + o) or o.endswith("." + k)), None)
            if key is None:
                info["broken"].append(f"theorem:{o} (no #print axioms output)")
            elif not ax[key] <= ALLOWED_AXIOMS:
                info["broken"].append(f"theorem:{o} (axioms {sorted(ax[key] - ALLOWED_AXIOMS)})")
            else:
                info["discharged"].append(o)
        hy = hygiene()
        if hy:
            info["notes"].append("hygiene hits: " + "; ".join(hy[:10]))
            info["broken"].append("hygiene:" + hy[0])
            info["discharged"] = []
        # 5. thorough: independent re-check of the compiled theorems
        if tier == "thorough" and os.environ.get("VERIF_LEANCHECKER", "1") == "1":
            try:
                rc, out, dt4 = _run(["lake", "env", "leanchecker", f"Reamber.Props.{prop_id}"], 1800)
                info["leanchecker"] = dict(rc=rc, wall_s=round(dt4, 1), tail=out[-300:])
                if rc != 0:
                    info["broken"].append(f"leanchecker:Reamber.Props.{prop_id}")
                    info["discharged"] = []
                info["checker_cmd"] += f" && lake env leanchecker Reamber.Props.{prop_id}"
            except subprocess.TimeoutExpired:
                info["leanchecker"] = dict(rc=None, note="timeout (not counted)")
        return info
    finally:
        fcntl.flock(lock, fcntl.LOCK_UN)
        lock.close()
