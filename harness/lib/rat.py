"""Exact numbers on the wire: a rational is [num, den]; floats are converted exactly."""
from fractions import Fraction
import math


def R(x):
    """number -> [num, den] (exact)."""
    if x is None:
        return None
    if isinstance(x, bool):
        x = int(x)
    if isinstance(x, Fraction):
        return [x.numerator, x.denominator]
    if isinstance(x, int):
        return [x, 1]
    try:
        import numpy as np
        if isinstance(x, np.integer):
            return [int(x), 1]
        if isinstance(x, np.floating):
            x = float(x)
    except ImportError:
        pass
    if isinstance(x, float):
        if not math.isfinite(x):
            raise ValueError(f"non-finite {x}")
        f = Fraction(x)
        return [f.numerator, f.denominator]
    raise TypeError(f"cannot encode {x!r} ({type(x)})")


def F(j):
    """[num, den] | int -> Fraction."""
    if j is None:
        return None
    if isinstance(j, int):
        return Fraction(j)
    return Fraction(int(j[0]), int(j[1]))


REL = Fraction(1, 2 ** 40)
ABS = Fraction(1, 2 ** 40)


def close(a, b, rel=REL, abs_=ABS):
    """DESIGN §3 tolerance between an implementation double and a model rational."""
    a = Fraction(a) if not isinstance(a, Fraction) else a
    b = Fraction(b) if not isinstance(b, Fraction) else b
    d = abs(a - b)
    return d <= abs_ + rel * max(abs(a), abs(b))


def dev(a, b):
    a = Fraction(a); b = Fraction(b)
    return float(abs(a - b))
