"""Case loop, verdict logic (DESIGN §4), shrinking, replay files, evidence."""
import hashlib
import importlib
import json
import multiprocessing as mp
import os
import random
import sys
import time
import traceback

from . import build
from .driver import Driver, DriverError, VERIF

# VERIF_REPLAY_DIR / VERIF_EVIDENCE_DIR: used only by harness/tools (runs against scratch copies of the repo must not
# overwrite the evidence of /repo); the registered commands never set them.
REPLAYS = os.environ.get("VERIF_REPLAY_DIR") or os.path.join(VERIF, "replays")
EVIDENCE = os.environ.get("VERIF_EVIDENCE_DIR") or os.path.join(VERIF, "evidence")
KF_FILE = os.path.join(VERIF, "known_findings.json")

TRUSTED_BASE = [
    "Lean 4.33.0 kernel (+ leanchecker on the thorough tier)",
    "axioms: subset of {propext, Classical.choice, Quot.sound}, audited by #print axioms on every run; no native_decide/bv_decide/sorry/own axioms",
    "correspondence harness (generators, adapters, comparators) and translator harness/extract_tables.py",
    "float bridge: exact rationals in, 2^-40 relative+absolute tolerance on continuous outputs (DESIGN §3)",
    "modelled, not verified: pandas, numpy, PyYAML, codecs, struct, bisect, Python int()/float()/repr/format",
]


def canon(case):
    return json.dumps(case, sort_keys=True, separators=(",", ":"), default=str)


def case_hash(case):
    return hashlib.sha1(canon(case).encode()).hexdigest()[:12]


def load_module(prop_id):
    return importlib.import_module(f"props.{prop_id.lower()}")


def load_kf(prop_id):
    if not os.path.exists(KF_FILE):
        return []
    data = json.load(open(KF_FILE))
    return [e for e in data.get("findings", []) if prop_id in e.get("properties", [e.get("property")])]


# ----------------------------------------------------------------------------------------------
# workers

_W = {}


def _winit(prop_id, repo):
    os.environ["REAMBER_REPO"] = repo
    _W["mod"] = load_module(prop_id)
    _W["drv"] = None


def _drv():
    if _W.get("drv") is None:
        _W["drv"] = Driver()
    return _W["drv"]


def run_case(mod, case):
    """runs one case; never raises"""
    try:
        r = mod.run(case, _drv())
        r.setdefault("tags", [])
        r.setdefault("nontrivial", True)
        r.setdefault("dom", True)
        r.setdefault("kf", None)
        r.setdefault("detail", {})
        return r
    except DriverError as e:
        _W["drv"] = None
        return dict(ok=None, agree=False, dom=True, kf=None, tags=["driver-error"], nontrivial=False,
                    detail=dict(exc=f"DriverError: {e}"), claim=case.get("claim", "?"))
    except Exception:
        return dict(ok=None, agree=False, dom=True, kf=None, tags=["harness-exception"], nontrivial=False,
                    detail=dict(exc=traceback.format_exc()[-2500:]), claim=case.get("claim", "?"))


def _wgen(args):
    seed, tier, i, stream = args
    mod = _W["mod"]
    rng = random.Random(f"{seed}:{stream}:{i}")
    try:
        case = mod.gen(rng, tier, i) if stream == "main" else mod.gen_search(rng, tier, i)
    except Exception:
        return dict(i=i, case=None, res=dict(ok=None, agree=False, tags=["gen-exception"], nontrivial=False, dom=True,
                                             kf=None, detail=dict(exc=traceback.format_exc()[-2000:]), claim="gen"))
    res = run_case(mod, case)
    keep = (res["ok"] is not True) or (not res["agree"]) or i < 3
    h = case_hash(case)
    return dict(i=i, h=h, case=case if keep else None, res=res)


def _wcase(case):
    return dict(i=-1, h=case_hash(case), case=case, res=run_case(_W["mod"], case))


# ----------------------------------------------------------------------------------------------
# shrinking

PROTECTED_KEYS = {"claim", "kind", "op", "game", "mode", "cls", "name", "type"}


def _simpler_numbers(x):
    if isinstance(x, bool):
        return []
    if isinstance(x, int):
        c = [0, 1, x // 2]
        return [v for v in c if v != x and abs(v) <= abs(x)]
    if isinstance(x, float):
        c = [0.0, 1.0, float(int(x)), round(x, 1)]
        return [v for v in c if v != x]
    return []


def _candidates(x):
    """structure-aware one-step simplifications of a JSON value"""
    if isinstance(x, list):
        n = len(x)
        if n > 1:
            yield x[: n // 2]
            yield x[n // 2:]
        for i in range(n):
            yield x[:i] + x[i + 1:]
        for i in range(n):
            for c in _candidates(x[i]):
                yield x[:i] + [c] + x[i + 1:]
    elif isinstance(x, dict):
        for k in sorted(x):
            if k in PROTECTED_KEYS or k.startswith("_"):
                continue
            for c in _candidates(x[k]):
                y = dict(x)
                y[k] = c
                yield y
    elif isinstance(x, str):
        if len(x) > 1 and len(x) < 40:
            yield x[: len(x) // 2]
            yield x[1:]
    else:
        for c in _simpler_numbers(x):
            yield c


def shrink(mod, case, klass, budget_s=25.0, max_evals=400, orig=None):
    """greedy shrink keeping the verdict class (`viol` / `disagree`), the matched known-finding id and
    in-domain-ness (a candidate that leaves the proved domain is not a simplification of an in-domain failure)"""
    okf = orig.get("kf") if orig else None
    odom = orig.get("dom", False) if orig else False
    t0 = time.time()
    evals = 0
    valid = getattr(mod, "valid", lambda c: True)
    cur = case
    improved = True
    while improved and time.time() - t0 < budget_s and evals < max_evals:
        improved = False
        for cand in _candidates(cur):
            if time.time() - t0 > budget_s or evals >= max_evals:
                break
            try:
                if not valid(cand):
                    continue
            except Exception:
                continue
            evals += 1
            r = run_case(mod, cand)
            if "harness-exception" in r["tags"] or "driver-error" in r["tags"]:
                continue
            if classify(r) == klass and r.get("kf") == okf and (r.get("dom") or not odom):
                cur = cand
                improved = True
                break
    return cur, evals


def classify(res):
    if res["ok"] is False:
        return "viol"
    if not res["agree"] or res["ok"] is None:
        return "disagree"
    return "pass"


# ----------------------------------------------------------------------------------------------

def write_replay(prop_id, kind, case, res, seed, names, extra=None):
    os.makedirs(REPLAYS, exist_ok=True)
    h = case_hash(case) if case is not None else hashlib.sha1(json.dumps(names).encode()).hexdigest()[:12]
    path = os.path.join(REPLAYS, f"{prop_id}-{kind}-{h}.json")
    doc = dict(property=prop_id, kind=kind, seed=seed, names=names, case=case, result=res,
               replay_cmd=f"/venv/bin/python harness/vcheck.py {prop_id} --replay {os.path.relpath(path, VERIF)}")
    if extra:
        doc.update(extra)
    json.dump(doc, open(path, "w"), indent=1, default=str)
    return os.path.relpath(path, VERIF)


def trim(x, depth=0):
    """keep evidence samples readable"""
    if isinstance(x, list):
        if len(x) > 12:
            return [trim(v, depth + 1) for v in x[:12]] + [f"... {len(x) - 12} more"]
        return [trim(v, depth + 1) for v in x]
    if isinstance(x, dict):
        return {k: trim(v, depth + 1) for k, v in x.items()}
    if isinstance(x, str) and len(x) > 600:
        return x[:600] + f"... ({len(x)} chars)"
    return x


def main(argv=None):
    import argparse
    ap = argparse.ArgumentParser()
    ap.add_argument("prop")
    ap.add_argument("--tier", default=os.environ.get("VERIF_TIER", "quick"), choices=["quick", "thorough"])
    ap.add_argument("--replay")
    ap.add_argument("--n", type=int, default=None, help="override the number of generated cases")
    ap.add_argument("--no-build", action="store_true", help="(debug) skip translate/build/audit")
    ap.add_argument("--jobs", type=int, default=None)
    a = ap.parse_args(argv)
    prop_id = a.prop.upper()
    seed = int(os.environ.get("VERIF_SEED", "0") or 0)
    repo = os.path.abspath(os.environ.get("REAMBER_REPO", "/repo"))
    os.environ["REAMBER_REPO"] = repo
    sys.path.insert(0, repo)
    t_start = time.time()
    try:
        return _main(a, prop_id, seed, repo, t_start)
    except DriverError as e:
        print(f"INFRA: {e}")
        return 2


def _main(a, prop_id, seed, repo, t_start):
    mod = load_module(prop_id)
    tier = a.tier

    if a.replay:
        doc = json.load(open(a.replay if os.path.isabs(a.replay) else os.path.join(VERIF, a.replay)))
        _winit(prop_id, repo)
        if doc.get("case") is None:
            print(f"replay names a broken obligation, no input: {doc.get('names')}")
            return 1
        r = run_case(mod, doc["case"])
        print(json.dumps(trim(r), indent=1, default=str))
        k = classify(r)
        print(f"replay verdict: {k}")
        return 0 if k == "pass" else 1

    # ---- 1/2: translate, build, audit
    if a.no_build:
        prep = dict(build_ok=True, driver_ok=True, obligations=build.audit_obligations(prop_id), discharged=[],
                    broken=[], notes=["--no-build"], generated_changed=[], checker_cmd="(skipped)", axioms={},
                    leanchecker=None)
        prep["discharged"] = list(prep["obligations"])
    else:
        prep = build.prepare(prop_id, tier, repo)
    if not prep["driver_ok"]:
        if prep["generated_changed"] or any(b.startswith("translator") for b in prep["broken"]):
            # the source changed what the translator emits and the model no longer builds against it
            path = write_replay(prop_id, "obligation", None, None, seed,
                                ["build:driver"] + prep["broken"], dict(notes=prep["notes"]))
            write_evidence(prop_id, tier, seed, prep, {}, t_start, violations=1, mod=mod)
            print(f"VIOLATION property={prop_id} replay={path} no-failing-input-found")
            return 1
        print("INFRA: driver build failed with unchanged generated tables")
        print("\n".join(prep["notes"])[-3000:])
        return 2

    jobs = a.jobs or (int(os.environ.get("VERIF_JOBS", "0")) or (16 if tier == "thorough" else 6))
    n = a.n if a.n is not None else (mod.THOROUGH_N if tier == "thorough" else mod.QUICK_N)
    budget = float(os.environ.get("VERIF_BUDGET_S", "0")) or (getattr(mod, "THOROUGH_BUDGET_S", 1200) if tier == "thorough"
                                                              else getattr(mod, "QUICK_BUDGET_S", 100))

    stats = dict(evaluations=0, distinct=set(), nontrivial=set(), tags={}, claims={}, dom_in=0, dom_out=0,
                 maxdev=0.0, boundary=0, samples=[], fails=[], kf_hits={}, corpus=0)

    def absorb(item):
        res = item["res"]
        stats["evaluations"] += 1
        h = item.get("h") or "?"
        stats["distinct"].add(h)
        if res.get("nontrivial"):
            stats["nontrivial"].add(h)
        for t in res.get("tags", []):
            stats["tags"][t] = stats["tags"].get(t, 0) + 1
        c = res.get("claim", "?")
        stats["claims"][c] = stats["claims"].get(c, 0) + 1
        if res.get("dom"):
            stats["dom_in"] += 1
        else:
            stats["dom_out"] += 1
        stats["maxdev"] = max(stats["maxdev"], float(res.get("maxdev", 0.0) or 0.0))
        if res.get("boundary"):
            stats["boundary"] += 1
        if item.get("case") is not None and len(stats["samples"]) < 3 and classify(res) == "pass":
            stats["samples"].append(dict(case=trim(item["case"]), claim=c, tags=res.get("tags", [])))
        k = classify(res)
        if k != "pass":
            stats["fails"].append((k, item["case"], res))

    kfs = load_kf(prop_id)
    open_kf = {e["id"]: e for e in kfs if e.get("status") == "open"}

    ctx = mp.get_context("fork")
    with ctx.Pool(jobs, initializer=_winit, initargs=(prop_id, repo)) as pool:
        # corpus first (minimised past failures, known-finding witnesses, hand-written edge cases)
        corpus = list(getattr(mod, "corpus", lambda: [])())
        for e in kfs:
            wit = (e.get("witness") or {}).get(prop_id)
            if wit is not None:
                w = dict(wit)
                w["_kf_witness"] = e["id"]
                corpus.append(w)
        kf_witness_state = {}
        for item in pool.imap(_wcase, corpus, chunksize=1):
            wid = item["case"].get("_kf_witness") if isinstance(item["case"], dict) else None
            if wid:
                kf_witness_state[wid] = classify(item["res"])
            absorb(item)
            stats["corpus"] += 1
        # generated cases
        deadline = time.time() + budget
        chunk = max(1, min(50, n // (jobs * 4) or 1))
        it = pool.imap_unordered(_wgen, ((seed, tier, i, "main") for i in range(n)), chunksize=chunk)
        timed_out = False
        for item in it:
            absorb(item)
            if time.time() > deadline:
                timed_out = True
                break
        if timed_out:
            pool.terminate()

    # ---- verdicts
    _winit(prop_id, repo)
    out_lines = []
    violations = []      # (path, suffix)
    reported_kf = set()

    viols = [(c, r) for k, c, r in stats["fails"] if k == "viol"]
    disag = [(c, r) for k, c, r in stats["fails"] if k == "disagree"]

    # known findings: every listed open finding is replayed through its witness
    for fid, e in open_kf.items():
        st = kf_witness_state.get(fid)
        if st == "viol" or st is None:
            out_lines.append(f"KNOWN-FINDING: property={prop_id} {fid} {e['what']}")
        else:
            out_lines.append(f"NOTE: known finding {fid} no longer reproduces on its witness (stale?)")
        reported_kf.add(fid)

    new_viols = []
    for c, r in viols:
        fid = r.get("kf")
        if fid and fid in open_kf:
            stats["kf_hits"][fid] = stats["kf_hits"].get(fid, 0) + 1
            continue
        if isinstance(c, dict) and c.get("_kf_witness") in open_kf:
            continue
        new_viols.append((c, r))

    if new_viols:
        # one replay per distinct claim (at most 3)
        seen = set()
        for c, r in new_viols:
            cl = r.get("claim", "?")
            if cl in seen or len(seen) >= 3:
                continue
            seen.add(cl)
            small, ev = shrink(mod, c, "viol", orig=r)
            rs = run_case(mod, small)
            if classify(rs) != "viol" or (rs.get("kf") in open_kf):
                small, rs = c, r
            path = write_replay(prop_id, "violation", small, trim(rs), seed,
                                [f"spec:{prop_id}/{cl}"], dict(original_case=trim(c), shrink_evals=ev))
            violations.append((path, ""))
    elif disag or prep["broken"]:
        # correspondence or proof obligation broken: search for a failing input (DESIGN §4)
        names = list(prep["broken"]) + sorted({f"corr:{prop_id}/{r.get('claim', '?')}" for _, r in disag})
        found = None
        search_n = getattr(mod, "SEARCH_N", None) or (3 * mod.QUICK_N if tier == "quick" else mod.THOROUGH_N // 2)
        gen_search = hasattr(mod, "gen_search")
        sdeadline = time.time() + (90 if tier == "quick" else 600)
        # neighbourhood of the first disagreements
        neigh = []
        for c, r in disag[:5]:
            if c is None:
                continue
            for cand in list(_candidates(c))[:60]:
                neigh.append(cand)
        for cand in neigh:
            if time.time() > sdeadline:
                break
            try:
                if not getattr(mod, "valid", lambda c: True)(cand):
                    continue
            except Exception:
                continue
            rr = run_case(mod, cand)
            if classify(rr) == "viol" and not (rr.get("kf") in open_kf):
                found = (cand, rr)
                break
        if found is None:
            with ctx.Pool(jobs, initializer=_winit, initargs=(prop_id, repo)) as pool:
                stream = "search" if gen_search else "main"
                it = pool.imap_unordered(_wgen, ((seed + 7919, tier, i, stream) for i in range(search_n)), chunksize=4)
                for item in it:
                    stats["evaluations"] += 1
                    if classify(item["res"]) == "viol" and not (item["res"].get("kf") in open_kf):
                        found = (item["case"], item["res"])
                        break
                    if time.time() > sdeadline:
                        break
                pool.terminate()
        if found is not None:
            small, ev = shrink(mod, found[0], "viol", orig=found[1])
            rs = run_case(mod, small)
            if classify(rs) != "viol":
                small, rs = found
            path = write_replay(prop_id, "violation", small, trim(rs), seed,
                                [f"spec:{prop_id}/{rs.get('claim', '?')}"] + names)
            violations.append((path, ""))
        else:
            first = disag[0] if disag else (None, None)
            small = first[0]
            if small is not None:
                small, _ = shrink(mod, small, "disagree", budget_s=15, orig=first[1])
                rs = run_case(mod, small)
                if classify(rs) != "disagree":
                    small, rs = first
            else:
                rs = None
            path = write_replay(prop_id, "unproved", small, trim(rs) if rs else None, seed, names,
                                dict(notes=prep["notes"], explanation="the theorem(s)/correspondence named in `names` no longer check "
                                     "against this source; no input violating the property's specification was found"))
            violations.append((path, " no-failing-input-found"))

    write_evidence(prop_id, tier, seed, prep, stats, t_start, violations=len(violations), mod=mod,
                   kf=dict(open=sorted(open_kf), hits=stats["kf_hits"], witness_state=kf_witness_state),
                   timed_out=timed_out, n_target=n)
    for l in out_lines:
        print(l)
    print(f"[{prop_id}] tier={tier} seed={seed} evaluations={stats['evaluations']} distinct_nontrivial={len(stats['nontrivial'])} "
          f"obligations={len(prep['obligations'])} discharged={len(prep['discharged'])} dom_in={stats['dom_in']} dom_out={stats['dom_out']} "
          f"wall={time.time() - t_start:.1f}s")
    if violations:
        for path, suf in violations:
            print(f"VIOLATION property={prop_id} replay={path}{suf}")
        return 1
    return 0


def write_evidence(prop_id, tier, seed, prep, stats, t_start, violations, mod, kf=None, timed_out=False, n_target=None):
    os.makedirs(EVIDENCE, exist_ok=True)
    cov = dict(
        obligations=len(prep["obligations"]),
        discharged=len(prep["discharged"]),
        obligation_names=prep["obligations"],
        broken=prep["broken"],
        checker_cmd=prep["checker_cmd"],
        trusted_base=TRUSTED_BASE + list(getattr(mod, "TRUSTED_EXTRA", [])),
        axioms_used=prep.get("axioms", {}),
        leanchecker=prep.get("leanchecker"),
        generated_rewritten=prep.get("generated_changed", []),
        evaluations=stats.get("evaluations", 0),
        distinct_nontrivial=len(stats.get("nontrivial", ())),
        distinct=len(stats.get("distinct", ())),
        rule=getattr(mod, "RULE", "cases drawn from one PRNG per (VERIF_SEED, index); distinct = distinct canonical JSON; "
                                    "non-trivial = the module's run() marked the case as exercising a non-default branch"),
        samples=stats.get("samples", []) or [dict(note="no passing sample recorded")],
        corpus_cases=stats.get("corpus", 0),
        claims=stats.get("claims", {}),
        branch_tags=stats.get("tags", {}),
        in_proved_domain=stats.get("dom_in", 0),
        outside_proved_domain=stats.get("dom_out", 0),
        max_float_deviation=stats.get("maxdev", 0.0),
        float_boundary_cases=stats.get("boundary", 0),
        known_findings=kf or {},
        exhaustive=False,
        stopped_on_time_budget=timed_out,
        cases_requested=n_target,
    )
    extra = getattr(mod, "evidence_extra", None)
    if extra:
        try:
            cov.update(extra(tier))
        except Exception:
            pass
    doc = dict(property_id=prop_id, tier=tier, seed=seed, level="proof", coverage=cov,
               assumptions=list(getattr(mod, "ASSUMPTIONS", [])), wall_s=round(time.time() - t_start, 2),
               violations=violations)
    json.dump(doc, open(os.path.join(EVIDENCE, f"{prop_id}.json"), "w"), indent=1, default=str)
